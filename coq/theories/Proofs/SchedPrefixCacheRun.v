(* SchedPrefixCacheRun.v — prefixes of the run of the hazard-detecting pipeline with ANY memory
   configuration (data cache, instruction cache, penalties) against the documented schedule.  The cached
   pipeline runs in lockstep with its flattened copy ([sim_pipe_step], Proofs/LiftPipeRun.v); the flat
   copy is in the cut-mode timing invariant [Jc] of Proofs/SchedPrefixCacheLink.v, where N is the
   first instruction at which the CACHED single-cycle machine stops making ordinary steps (a fault of
   any kind, a cache rejection included, or the end of the fuel).  A fault of the cached pipeline is
   the fault of instruction N ([Lift2Run.fault_step]) and is raised in the cycle given by the recurrence. *)
From Coq Require Import Lia ZifyBool.
From ArchSim Require Import Spec.RefCache.
From ArchSim Require Import Model.Base Model.Mem Model.Cache Model.Fmt Model.RV Model.Single
  Model.RVSplit Model.Pipe Proofs.WordLemmas Proofs.C01Step Proofs.SplitExec Proofs.C02Split
  Proofs.PipeLaws Proofs.PipeShape Proofs.PipeInv Proofs.PipeInvBase Proofs.PipeInvStages
  Proofs.PipeInvStraight Proofs.PipeInvControl Proofs.PipeInvEcall
  Proofs.LiftSim Proofs.LiftSingle Proofs.LiftPipe Proofs.LiftPipeRun Proofs.LiftRefineBase Proofs.LiftRefine
  Proofs.AcctStep Proofs.AcctRefine Proofs.Lift2Fault Proofs.Lift2Run
  Proofs.SchedDefs Proofs.SchedRec Proofs.SchedStep Proofs.SchedInv Proofs.SchedLink
  Proofs.SchedPrefixFault Proofs.SchedPrefixLink Proofs.SchedPrefixCacheLink.
Open Scope Z_scope.

Local Arguments Z.of_nat : simpl never.
Local Arguments Z.add : simpl never.
Local Arguments Z.sub : simpl never.
Local Arguments Z.mul : simpl never.

Lemma sigS j : forall s, sigma (S j) s = nxt (sigma j s).
Proof. induction j as [|j IH]; intros s; [reflexivity|]. change (sigma (S (S j)) s) with (sigma (S j) (nxt s)). rewrite IH. reflexivity. Qed.

(* an ordinary cached step over the flat copy *)
Lemma csim_step s t : sim s t -> snd (single_pipeline_step s) = None ->
  snd (single_pipeline_step t) = None /\ sim (nxt s) (nxt t) /\ ms_cfg (ms (nxt s)) = ms_cfg (ms s).
Proof.
  intros S H. unfold nxt. destruct (single_pipeline_step s) as [s1 of] eqn:Hs. cbn [snd fst] in *. subst of.
  destruct (sim_single_step s t s1 None S Hs) as (t1 & of' & Ht & Hc & Hres). rewrite Ht. cbn [snd fst].
  assert (Hok : of' = None /\ sim s1 t1).
  { destruct (instr_at (prog (im s)) (pc s)) as [i|]; [|destruct Hres as (_ & -> & S1); split; [reflexivity|exact S1]].
    destruct (rejects (ms_cfg (ms s)) i s) as [e|]; [destruct Hres as [Hx _]; discriminate Hx|].
    destruct Hres as [Eo S1]. destruct of'; [discriminate Eo|]. split; [reflexivity|exact S1]. }
  destruct Hok as [-> S1]. split; [reflexivity|]. split; [exact S1|exact Hc].
Qed.

Section CRun.
Variable P : list instr.
Hypothesis Hsup : Forall (fun i => supported i = true) P.
Variables (sc tf : st).
Hypothesis S0 : sim sc tf.
Hypothesis W : wf tf.
Hypothesis HP : prog (im tf) = P.
Variable N : nat.
Hypothesis HC1 : forall j, (j < N)%nat ->
  single_done (sigma j sc) = false /\ snd (single_pipeline_step (sigma j sc)) = None.
Hypothesis HCe : single_done (sigma N sc) = false.

Lemma csim j : (j <= N)%nat -> sim (sigma j sc) (sigma j tf) /\ ms_cfg (ms (sigma j sc)) = ms_cfg (ms sc).
Proof.
  induction j as [|j IH]; intros Hj; [split; [exact S0|reflexivity]|].
  destruct (IH ltac:(lia)) as [Sj Hc]. destruct (HC1 j ltac:(lia)) as [_ Hok].
  destruct (csim_step _ _ Sj Hok) as (_ & S1 & Hc1). rewrite !sigS. split; [exact S1|congruence].
Qed.

Lemma HF1 : forall j, (j < N)%nat ->
  single_done (sigma j tf) = false /\ snd (single_pipeline_step (sigma j tf)) = None.
Proof.
  intros j Hj. destruct (csim j ltac:(lia)) as [Sj _]. destruct (HC1 j Hj) as [Hd Hok].
  split; [rewrite <- (sim_single_done _ _ Sj); exact Hd|]. apply (csim_step _ _ Sj Hok).
Qed.
Lemma HFe : single_done (sigma N tf) = false.
Proof. destruct (csim N ltac:(lia)) as [Sj _]. rewrite <- (sim_single_done _ _ Sj). exact HCe. Qed.

Notation evc := (evm tf N true).
Notation Jf := (Jc P tf N).
Notation fstep := (SchedPrefixLink.fault_step tf N true).

(* the cached pipeline, its flat copy, and the two single-cycle machines behind k retired instructions *)
Definition CJ (t : nat) (qc : pstate) (k : nat) : Prop :=
  exists tq, LiftRefine.J qc (with_pst qc tq) (sigma k sc) (sigma k tf) /\ MS qc (sigma k sc) /\
             Jf t (with_pst qc tq) k.

Lemma CJ_init : exitc tf = None -> CJ 0 (pipe_init sc true) 0.
Proof.
  intros Hex. exists tf. split; [|split].
  - constructor; [exact S0|reflexivity|exact S0|intros H; discriminate H|reflexivity].
  - reflexivity.
  - exact (Jc_init P tf N HF1 W HP Hex).
Qed.

Lemma CJ_bound t qc k : CJ t qc k -> (t <= X evc k + 1)%nat /\ (k <= N)%nat.
Proof. intros (tq & _ & _ & HJ). exact (Jc_bound P tf N HF1 t _ k HJ). Qed.
Lemma CJ_retired t qc k : CJ t qc k -> (0 < k)%nat -> (X evc (k - 1) + 2 <= t)%nat.
Proof. intros (tq & _ & _ & HJ). exact (Jc_retired P tf N t _ k HJ). Qed.

(** * One cycle of the cached pipeline *)
Lemma CJ_step t qc k : CJ t qc k ->
  pipe_done qc = false /\
  match pipe_step qc with
  | (q', None) =>
      ((t < X evc N)%nat ->
         (lat_at (lat q') 4 = None /\ CJ (S t) q' k) \/
         (exists x, lat_at (lat q') 4 = Some x /\ sl_addr x = pc (sigma k tf) /\ S t = (X evc k + 2)%nat /\
                    (k < N)%nat /\ CJ (S t) q' (S k))) /\
      (~ (t < X evc N)%nat -> snd (single_pipeline_step (sigma N sc)) = None)
  | (q', Some f) =>
      (exists sm, single_pipeline_step (sigma N sc) = (sm, Some f)) /\ S t = fstep /\
      icount (pst q') = icount (sigma N tf) /\ (k = N \/ S k = N)
  end.
Proof.
  intros (tq & HJ & HMS & HJc). set (qf := with_pst qc tq) in *.
  pose proof (j_ps _ _ _ _ HJ) as Sp. change (pst qf) with tq in Sp.
  assert (Hpdf : pipe_done qf = false) by exact (Jc_notdone P tf N HF1 HFe t qf k HJc).
  assert (Hpd : pipe_done qc = false) by (rewrite <- (sim_pipe_done qc tq Sp); exact Hpdf).
  split; [exact Hpd|].
  pose proof HJc as (l0 & l1 & l2 & l3 & l4 & dead & IV & Hk & H3 & HT).
  pose proof (iv_shape _ _ _ _ _ _ _ _ _ IV) as Sh. pose proof (iv_lat _ _ _ _ _ _ _ _ _ IV) as Hlf.
  assert (Hl : lat qc = [l0; l1; l2; l3; l4]) by exact Hlf.
  pose proof (Jc_icount P Hsup tf N HF1 t qf k HJc) as HI. cbv zeta in HI. rewrite Hlf in HI.
  change (lat_at [l0; l1; l2; l3; l4] 3) with l3 in HI. destruct HI as (HjN & Hkj & Hic).
  destruct (csim k Hk) as [Sk Hck].
  assert (Hmode : stalled qc = None \/ exists km d, stalled qc = Some (km, d) /\ (km = 1 \/ km = 2))
    by exact (shape_mode_cases no_icache qf Sh).
  destruct (views qc l0 l1 l2 l3 l4 Hl Hmode) as (V4 & _ & _ & Vm).
  destruct (pipe_step qc) as [q' [f|]] eqn:Hps.
  - (* a fault: the cached single-cycle machine faults at the instruction behind latch 3 *)
    destruct (Lift2Run.fault_step P Hsup qc qf _ _ l0 l1 l2 l3 l4 dead q' f IV HJ HMS Hpdf Hps) as (_ & _ & s1 & Hs1 & _).
    rewrite (adv_idx sc N HC1) in Hs1.
    assert (HjE : (k + b2n (oc l3))%nat = N).
    { destruct (Nat.lt_ge_cases (k + b2n (oc l3)) N) as [Hlt|Hge]; [|lia].
      destruct (HC1 _ Hlt) as [_ Hok]. rewrite Hs1 in Hok. discriminate Hok. }
    split; [exists s1; rewrite <- HjE; exact Hs1|].
    assert (Hicq : icount (pst q') = icount (sigma N tf)).
    { rewrite <- HjE, Hic.
      pose proof (pipe_step_eq qc) as He. destruct (run_stages (bump qc)) as [[next s] [g|]] eqn:Hrs.
      - destruct (counters_fault qc next s g Hrs) as (_ & _ & Hi & _). rewrite Hps in Hi. cbn [fst] in Hi.
        rewrite V4 in Hi. rewrite Hi, (sm_ic _ _ Sp). reflexivity.
      - rewrite Hps in He. discriminate He. }
    assert (Hfs : S t = fstep).
    { destruct (sim_pipe_step qc tq q' (Some f) Sp Hps) as [_ [(t' & of' & Hpf & _ & Eo & _)|(z & e & Hz & Hrej & _)]].
      - destruct of' as [ff|]; [|discriminate Eo].
        destruct (Jc_fault P Hsup tf N HF1 HFe t qf k _ ff HJc Hpf) as (_ & Hfs & _). exact Hfs.
      - (* a cache rejection: the slot that enters MEM is instruction N *)
        assert (Hz2 : l2 = Some z /\ m2 (stalled qc) = 0%nat).
        { destruct Vm as [(E & _ & Em)|[(d & E & _ & Em)|(d & E & Em)]]; rewrite Em in Hz; try discriminate Hz;
            rewrite E; (split; [exact Hz|reflexivity]). }
        destruct Hz2 as [Hz2 Hm0].
        assert (Hlz : lat_at (lat qf) 2 = Some z) by (rewrite Hlf; exact Hz2).
        pose proof (Jc_mem P Hsup tf N HF1 t qf k z HJc Hlz Hm0) as HM. cbv zeta in HM. rewrite Hlf in HM.
        change (lat_at [l0; l1; l2; l3; l4] 3) with l3 in HM. rewrite HjE in HM. destruct HM as (_ & Lz & Ez & HX).
        specialize (HX eq_refl).
        assert (Hec : ec (ev tf) N = false).
        { unfold ec. rewrite (live_ev P tf N z Lz). cbn [ev_instr ev_ecall].
          rewrite (eok_rejects _ (sigma N tf) (sigma N tf) z Ez eq_refl) in Hrej.
          pose proof (rejects_access _ _ _ _ (sigma N tf) Hrej) as Ha.
          destruct (sl_instr z); try reflexivity. exfalso. apply Ha. reflexivity. }
        unfold SchedPrefixLink.fault_step. rewrite Hec, HX. lia. }
    split; [exact Hfs|]. split; [exact Hicq|]. destruct (oc l3); cbn [b2n] in HjE; [right|left]; lia.
  - destruct (sim_pipe_step qc tq q' None Sp Hps) as [Hcfg' [(t' & of' & Hpf & Sa & Eo & _ & Hnrj)|(z & e & _ & _ & Ef)]];
      [|discriminate Ef].
    destruct of' as [ff|]; [discriminate Eo|]. fold qf in Hpf.
    pose proof (ms_step P Hsup qc qf _ _ l0 l1 l2 l3 l4 dead q' IV HJ HMS Hps) as HMS'. rewrite (adv_idx sc N HC1) in HMS'.
    pose proof (inv_step_e P Hsup _ _ _ _ _ _ _ _ IV Hpdf) as Hstep. unfold step_goal in Hstep. rewrite Hpf in Hstep.
    destruct Hstep as (_ & Hl4 & _). change (lat (with_pst q' t')) with (lat q') in Hl4.
    destruct (Jc_ok P Hsup tf N HF1 HFe t qf k _ HJc Hpf) as [A B].
    assert (HCJ : forall k', (k + b2n (oc l3))%nat = k' -> Jf (S t) (with_pst q' t') k' -> CJ (S t) q' k').
    { intros k' <- HJ'. exists t'. split; [|split; [exact HMS'|exact HJ']].
      pose proof (Jc_icount P Hsup tf N HF1 (S t) _ _ HJ') as HI. cbv zeta in HI. destruct HI as (HI & _).
      change (lat (with_pst q' t')) with (lat q') in HI.
      destruct (csim (k + b2n (oc l3)) ltac:(lia)) as [Sk' Hck'].
      constructor.
      + exact Sa.
      + reflexivity.
      + exact Sk'.
      + intros Hne. change (lat (with_pst q' t')) with (lat q') in Hne. unfold oc at 2 in HI. rewrite Hne in HI.
        cbn [b2n] in HI. apply HC1. lia.
      + rewrite Hcfg', (j_cfg _ _ _ _ HJ), Hck, Hck'. reflexivity. }
    split.
    + intros Hlt. destruct (A Hlt) as [(Hn4 & HJ')|(x & Hx4 & Ha & Ht & HkN & HJ')];
        change (lat (with_pst q' t')) with (lat q') in *.
      * left. split; [exact Hn4|]. apply HCJ; [|exact HJ']. rewrite Hn4 in Hl4. destruct l3; [discriminate Hl4|]. cbn. lia.
      * right. exists x. split; [exact Hx4|]. split; [exact Ha|]. split; [exact Ht|]. split; [exact HkN|].
        apply HCJ; [|exact HJ']. rewrite Hx4 in Hl4. destruct l3; [|discriminate Hl4]. cbn. lia.
    + intros Hge. destruct (B Hge) as (Hokf & z & Hz2 & Hm0 & HjE).
      pose proof (Jc_mem P Hsup tf N HF1 t qf k z HJc Hz2 Hm0) as HM. cbv zeta in HM. rewrite HjE in HM.
      destruct HM as (_ & Lz & Ez & _).
      rewrite Hlf in Hz2. change (l2 = Some z) in Hz2.
      destruct (csim N ltac:(lia)) as [SN HcN].
      apply (cstep_ok _ _ SN Hokf). intros i Hi.
      destruct Lz as (_ & HPN & (_ & _ & Hiz)). rewrite HPN, Hiz in Hi. injection Hi as <-.
      rewrite <- (eok_rejects _ (sigma N tf) (sigma N sc) z Ez (sm_regs _ _ SN)).
      rewrite HcN, <- Hck, <- (j_cfg _ _ _ _ HJ). apply (Hnrj eq_refl z).
      destruct Vm as [(E & _ & Em)|[(d & E & _ & Em)|(d & E & Em)]]; [rewrite Em; exact Hz2|rewrite Em; exact Hz2|].
      exfalso. destruct (shape_at qf _ _ _ _ _ Sh Hlf) as (_ & _ & _ & _ & _ & KM).
      change (stalled qf) with (stalled qc) in *. rewrite E in KM, Hm0. unfold ModeInv in KM.
      destruct (saved qf); [|contradiction]. destruct KM as [[-> | ->] _]; cbn in Hm0; lia.
Qed.

Definition retire_c (j : nat) : Z * nat := (pc (sigma j tf), (X evc j + 2)%nat).

Lemma fstep_le : (X evc N <= fstep <= X evc N + 1)%nat.
Proof. unfold SchedPrefixLink.fault_step. destruct (ec (ev tf) N); lia. Qed.

(** * c steps without fault *)
Lemma crun_nofault c : forall t qc k, CJ t qc k -> (t + c < fstep)%nat ->
  exists q' m, pipe_run c qc = (q', POutOfFuel) /\ pipe_run_steps c qc = c /\
    pipe_retire_from t c qc = map retire_c (seq k m) /\ CJ (t + c) q' (k + m).
Proof.
  pose proof fstep_le as Hfl.
  induction c as [|c IH]; intros t qc k HJ Hf.
  - destruct (CJ_step t qc k HJ) as [Hnd _].
    exists qc, 0%nat. cbn [pipe_run pipe_run_steps pipe_retire_from seq map]. rewrite Hnd, !Nat.add_0_r.
    repeat split. exact HJ.
  - destruct (CJ_step t qc k HJ) as [Hnd Hst].
    cbn [pipe_run pipe_run_steps pipe_retire_from]. rewrite Hnd.
    destruct (pipe_step qc) as [q1 [f|]] eqn:Hps.
    { destruct Hst as (_ & Hfs & _). lia. }
    destruct Hst as [Hst _].
    destruct (Hst ltac:(lia)) as [(Hl4 & HJ1)|(x & Hl4 & Ha & Ht & Hlt & HJ1)]; rewrite Hl4; cbn [some_ret app].
    + destruct (IH (S t) q1 k HJ1 ltac:(lia)) as (q' & m & Hr & Hs & Hret & HJ').
      exists q', m. replace (t + S c)%nat with (S t + c)%nat by lia.
      split; [exact Hr|]. split; [rewrite Hs; reflexivity|]. split; [exact Hret|exact HJ'].
    + destruct (IH (S t) q1 (S k) HJ1 ltac:(lia)) as (q' & m & Hr & Hs & Hret & HJ').
      exists q', (S m). replace (t + S c)%nat with (S t + c)%nat by lia. replace (k + S m)%nat with (S k + m)%nat by lia.
      split; [exact Hr|]. split; [rewrite Hs; reflexivity|].
      split; [rewrite Hret; cbn [seq map]; unfold retire_c at 2; rewrite Ha, Ht; reflexivity|exact HJ'].
Qed.

(** * A run that ends in a fault *)
Lemma crun_fault c : snd (single_pipeline_step (sigma N sc)) <> None ->
  forall t qc k qf f, CJ t qc k -> pipe_run c qc = (qf, PFaulted f) ->
  exists m, pipe_retire_from t c qc = map retire_c (seq k m) /\ ((k + m)%nat = N \/ S (k + m) = N) /\
    (t + pipe_run_steps c qc)%nat = fstep /\ icount (pst qf) = icount (sigma N tf) /\
    (exists sm, single_pipeline_step (sigma N sc) = (sm, Some f)) /\
    (fstep <= X evc (k + m) + 2)%nat /\ ((0 < k + m)%nat -> (X evc (k + m - 1) + 2 < fstep)%nat).
Proof.
  intros HCf. pose proof fstep_le as Hfl.
  induction c as [|c IH]; intros t qc k qf f HJ Hrun; cbn [pipe_run pipe_run_steps pipe_retire_from] in *.
  { destruct (pipe_done qc); discriminate Hrun. }
  destruct (pipe_done qc) eqn:Hd; [discriminate Hrun|].
  destruct (CJ_step t qc k HJ) as [_ Hst].
  destruct (pipe_step qc) as [q1 [g|]] eqn:Hps.
  - injection Hrun as <- <-. destruct Hst as (Hs & Hfs & Hic & HkN).
    exists 0%nat. cbn [seq map]. rewrite Nat.add_0_r.
    split; [reflexivity|]. split; [exact HkN|]. split; [lia|]. split; [exact Hic|]. split; [exact Hs|].
    destruct (CJ_bound t qc k HJ) as [Hb _]. split; [lia|].
    intros Hk0. pose proof (CJ_retired t qc k HJ Hk0). lia.
  - destruct Hst as [Hst Hlast].
    assert (Hlt : (t < X evc N)%nat).
    { destruct (Nat.lt_ge_cases t (X evc N)) as [H|H]; [exact H|]. exfalso. apply HCf, Hlast. lia. }
    destruct (Hst Hlt) as [(Hl4 & HJ1)|(x & Hl4 & Ha & Ht & HkN & HJ1)]; rewrite Hl4; cbn [some_ret app].
    + destruct (IH (S t) q1 k qf f HJ1 Hrun) as (m & Hret & Hm & Hs & Hrest).
      exists m. split; [exact Hret|]. split; [exact Hm|]. split; [lia|exact Hrest].
    + destruct (IH (S t) q1 (S k) qf f HJ1 Hrun) as (m & Hret & Hm & Hs & Hrest).
      exists (S m). rewrite Hret. cbn [seq map]. unfold retire_c at 2. rewrite Ha, Ht.
      replace (k + S m)%nat with (S k + m)%nat by lia. split; [reflexivity|]. split; [exact Hm|]. split; [lia|exact Hrest].
Qed.

End CRun.
