(* SchedLink.v — the timing invariant on the concrete pipeline: a state in the simulation invariant
   [InvAt] (PipeInv.v) for the single-cycle state after k instructions, whose view (occupancy of the
   latches, stall register) satisfies [T] (SchedInv.v) against the events of the single-cycle run. *)
From Coq Require Import Lia ZifyBool.
From ArchSim Require Import Model.Base Model.Mem Model.Cache Model.Fmt Model.RV Model.Single
  Model.RVSplit Model.Pipe Proofs.WordLemmas Proofs.C01Step Proofs.SplitExec Proofs.C02Split
  Proofs.PipeLaws Proofs.PipeShape Proofs.PipeInv Proofs.PipeInvBase Proofs.PipeInvStages
  Proofs.PipeInvStraight Proofs.PipeInvControl Proofs.PipeInvEcall Proofs.SchedDefs Proofs.SchedRec
  Proofs.SchedStep Proofs.SchedInv.
Open Scope Z_scope.

Ltac Zify.zify_post_hook ::= Z.to_euclidean_division_equations.
Local Arguments Z.mul : simpl never.
Local Arguments Z.add : simpl never.
Local Arguments Z.sub : simpl never.
Local Arguments Z.of_nat : simpl never.

(** * The redirect flag of an event is "the step is not plain" *)
Lemma mframe_bcount s s' : mframe s s' -> bcount s' = bcount s.
Proof. intros (m & c & ->). reflexivity. Qed.

Lemma behavior_bcount i s : supported i = true ->
  bcount (fst (behavior i s)) = bcount s + (if is_btype i && redirects i s then 1 else 0).
Proof.
  intros Hs. destruct i; try discriminate Hs; cbn [behavior fst is_btype andb redirects];
    try (match goal with |- context [rset s ?r ?v] =>
           destruct (rset_fields s r v) as (_ & _ & _ & _ & _ & _ & Hb & _) end; stf; lia).
  - match goal with |- context [st_read ?a ?b ?c ?d] =>
      destruct (st_read a b c d) as [[v|e] s'] eqn:E end;
      apply st_read_mframe, mframe_bcount in E; cbn [fst]; [|lia].
    match goal with |- context [rset s' ?r ?v] =>
      destruct (rset_fields s' r v) as (_ & _ & _ & _ & _ & _ & Hb & _) end. lia.
  - destruct (process_ecall s) as [[[t|c]|e] s'] eqn:E;
      apply process_ecall_mframe, mframe_bcount in E; cbn [fst]; stf; lia.
  - match goal with |- context [st_write ?a ?b ?c ?d ?g] =>
      destruct (st_write a b c d g) as [[e|] s'] eqn:E end;
      apply st_write_mframe, mframe_bcount in E; cbn [fst]; lia.
  - destruct (b_cond _ _ _); cbn [fst]; stf; lia.
Qed.

Lemma redirects_split i s : redirects i s = (is_btype i && redirects i s) || is_jump i.
Proof. destruct i; cbn [redirects is_btype is_jump andb orb]; try reflexivity. rewrite Bool.orb_false_r. reflexivity. Qed.

Lemma ev_redirect_eq t i : wf t -> instr_at (prog (im t)) (pc t) = Some i -> supported i = true ->
  snd (single_pipeline_step t) = None ->
  ev_redirect (ev_instr i t) = redirects i t || is_some (exitc (nxt t)).
Proof.
  intros W Hi Hs Hok. cbn [ev_instr ev_redirect]. f_equal.
  assert (Hb : bcount (nxt t) = bcount t + (if is_btype i && redirects i t then 1 else 0)).
  { unfold nxt in *. rewrite (sstep_eq t i W Hi) in *.
    pose proof (behavior_bcount i (pre t) Hs) as H.
    destruct (behavior i (pre t)) as [s2 [e|]]; [discriminate Hok|]. cbn [fst] in *. stf.
    change (bcount (pre t)) with (bcount t) in H. change (redirects i (pre t)) with (redirects i t) in H.
    exact H. }
  rewrite (redirects_split i t). rewrite Hb. destruct (is_btype i && redirects i t); f_equal; lia.
Qed.

Lemma plain_iff_redirect t i : wf t -> instr_at (prog (im t)) (pc t) = Some i -> supported i = true ->
  snd (single_pipeline_step t) = None ->
  (plain t i <-> ev_redirect (ev_instr i t) = false).
Proof.
  intros W Hi Hs Hok. rewrite (ev_redirect_eq t i W Hi Hs Hok). unfold plain.
  destruct (exitc (nxt t)); cbn [is_some]; destruct (redirects i t); cbn [orb]; split;
    try discriminate; try reflexivity; try (intros (_ & H1 & H2); discriminate).
  intros _. repeat split. exact Hok.
Qed.

(* an ecall has no destination (x0), so it never raises a decode hazard *)
Lemma ev_of_ecall_nodst t e : ev_ecall (ev_of t) = true -> dst_in (ev_of t) e = false.
Proof.
  unfold ev_of. destruct (instr_at _ _) as [i|]; [|discriminate].
  cbn [ev_instr ev_ecall]. intros H. apply is_ecall_true in H. subst i. reflexivity.
Qed.

Section Link.
Variable P : list instr.
Hypothesis Hsup : Forall (fun i => supported i = true) P.
Variable s0 : st.
Variable N : nat.
(* the single-cycle run from s0 makes exactly N steps, none of which faults *)
Hypothesis HN1 : forall j, (j < N)%nat ->
  single_done (sigma j s0) = false /\ snd (single_pipeline_step (sigma j s0)) = None.
Hypothesis HN2 : single_done (sigma N s0) = true.

Definition ev (j : nat) : event := ev_of (sigma j s0).
Definition oc (l : latch) : bool := nonempty l.

Lemma ev_ecall_nodst j e : ev_ecall (ev j) = true -> dst_in (ev j) e = false.
Proof. apply ev_of_ecall_nodst. Qed.

Lemma sigma_S j s : sigma (S j) s = nxt (sigma j s).
Proof. replace (S j) with (j + 1)%nat by lia. rewrite sigma_add. reflexivity. Qed.

Lemma adv_idx l j : adv l (sigma j s0) = sigma (j + b2n (oc l)) s0.
Proof.
  unfold adv, oc. destruct (nonempty l); cbn [b2n].
  - rewrite Nat.add_1_r, sigma_S. reflexivity.
  - rewrite Nat.add_0_r. reflexivity.
Qed.

(* an on-path slot whose pre-state is the single-cycle state after j instructions *)
Definition live_at (j : nat) (x : slot) : Prop :=
  wf (sigma j s0) /\ prog (im (sigma j s0)) = P /\ onp P (sigma j s0) x.

Lemma live_lt j x : live_at j x -> (j <= N)%nat -> (j < N)%nat.
Proof.
  intros (W & HP & (Hex & _ & Hi)) Hle. rewrite <- HP in Hi.
  pose proof (not_done _ _ Hex Hi) as Hnd.
  destruct (Nat.eq_dec j N) as [->|]; [congruence|lia].
Qed.

Lemma live_ev j x : live_at j x -> ev j = ev_instr (sl_instr x) (sigma j s0).
Proof. intros (_ & HP & (_ & _ & Hi)). unfold ev, ev_of. rewrite HP, Hi. reflexivity. Qed.

Lemma live_plain j x : live_at j x -> (j < N)%nat ->
  (plain (sigma j s0) (sl_instr x) <-> rd ev j = false).
Proof.
  intros L Hj. unfold rd. rewrite (live_ev j x L). destruct L as (W & HP & (_ & _ & Hi)).
  pose proof (sup_at P Hsup _ _ Hi) as Hs. rewrite <- HP in Hi.
  apply plain_iff_redirect; try assumption. apply (HN1 j Hj).
Qed.

Lemma live_next j x : live_at j x -> wf (sigma (S j) s0) /\ prog (im (sigma (S j) s0)) = P.
Proof.
  intros (W & HP & (Hex & _ & Hi)). rewrite <- HP in Hi. rewrite sigma_S.
  destruct (wf_nxt _ _ W Hex Hi) as [Wn Hpn]. split; [exact Wn|congruence].
Qed.

(* wf / program of the pre-state behind a latch that is empty or on path *)
Lemma adv_live l j : wf (sigma j s0) -> prog (im (sigma j s0)) = P ->
  (forall x, l = Some x -> live_at j x) ->
  wf (sigma (j + b2n (oc l)) s0) /\ prog (im (sigma (j + b2n (oc l)) s0)) = P.
Proof.
  intros W HP Hl. destruct l as [x|]; cbn [oc nonempty b2n].
  - rewrite Nat.add_1_r. apply (live_next j x). apply Hl. reflexivity.
  - rewrite Nat.add_0_r. split; assumption.
Qed.

(* one latch of the invariant: its slot is live, and it is the barrier iff its event redirects *)
Lemma lv_bar j l (live bar : Prop) C : bar \/ ~ bar -> lv P live bar (sigma j s0) l C -> live ->
  prog (im (sigma j s0)) = P -> (j <= N)%nat ->
  (forall x, l = Some x -> live_at j x) /\ (bar <-> oc l && rd ev j = true).
Proof.
  intros Hdec L Hlv HP Hj. destruct l as [x|]; cbn [lv oc nonempty andb] in *.
  - destruct (L Hlv) as (W & Hon & _ & Hb & Hnb).
    assert (Lx : live_at j x) by (split; [exact W|split; [exact HP|exact Hon]]).
    split; [intros y Hy; injection Hy as <-; exact Lx|].
    pose proof (live_plain j x Lx (live_lt j x Lx Hj)) as Hpl.
    split.
    + intros B. destruct (rd ev j) eqn:E; [reflexivity|]. exfalso. apply (Hb B). apply Hpl. reflexivity.
    + intros E. destruct Hdec as [B|NB]; [exact B|]. apply Hnb in NB. apply Hpl in NB. congruence.
  - split; [intros y Hy; discriminate Hy|]. split; [intros B; exfalso; exact (L B)|intros E; discriminate E].
Qed.

Lemma oc_some l : oc l = true -> exists x, l = Some x.
Proof. destruct l as [x|]; [eauto|discriminate]. Qed.

Section Facts.
Variables (p : pstate) (k : nat) (l0 l1 l2 l3 l4 : latch) (dead : nat).
Hypothesis IV : InvAt P p (sigma k s0) l0 l1 l2 l3 l4 dead.
Hypothesis Hk : (k <= N)%nat.

Let o0 := oc l0. Let o1 := oc l1. Let o2 := oc l2. Let o3 := oc l3.
Let J2 := j2 o3 k. Let J1 := j1 o2 o3 k. Let J0 := j0 o1 o2 o3 k. Let JF := jF o0 o1 o2 o3 k.

Lemma fact3 : forall x, l3 = Some x -> live_at k x.
Proof.
  intros x E. pose proof (iv_l3 _ _ _ _ _ _ _ _ _ IV) as L3. rewrite E in L3. cbn [lv3] in L3.
  destruct L3 as (W & Hon & _). split; [exact W|]. split; [exact (iv_progs _ _ _ _ _ _ _ _ _ IV)|exact Hon].
Qed.

Lemma fact_J2 : (J2 <= N)%nat /\ wf (sigma J2 s0) /\ prog (im (sigma J2 s0)) = P.
Proof.
  subst J2 o3. unfold j2. split.
  - destruct (oc l3) eqn:E; cbn [b2n]; [|lia]. destruct (oc_some _ E) as [x Hx].
    pose proof (live_lt k x (fact3 x Hx) Hk). lia.
  - apply adv_live; [exact (iv_wf _ _ _ _ _ _ _ _ _ IV)|exact (iv_progs _ _ _ _ _ _ _ _ _ IV)|exact fact3].
Qed.

Lemma fact2 : (forall x, l2 = Some x -> live_at J2 x) /\ (dead = 3%nat <-> o2 && rd ev J2 = true).
Proof.
  destruct fact_J2 as (Hj & W & HP).
  pose proof (iv_l2 _ _ _ _ _ _ _ _ _ IV) as L2. rewrite adv_idx in L2. fold o3 in L2. fold (j2 o3 k) in L2.
  apply (lv_bar J2 l2 True (dead = 3%nat) Eok); try assumption; [lia|exact Logic.I].
Qed.

Lemma fact_J1 : (J1 <= N)%nat /\ wf (sigma J1 s0) /\ prog (im (sigma J1 s0)) = P.
Proof.
  destruct fact_J2 as (Hj & W & HP). destruct fact2 as [F2 _]. subst J1 o2. unfold j1. fold J2. split.
  - destruct (oc l2) eqn:E; cbn [b2n]; [|lia]. destruct (oc_some _ E) as [x Hx].
    pose proof (live_lt J2 x (F2 x Hx) Hj). lia.
  - apply adv_live; assumption.
Qed.

Lemma fact1 : (dead <= 2)%nat ->
  (forall x, l1 = Some x -> live_at J1 x) /\ (dead = 2%nat <-> o1 && rd ev J1 = true).
Proof.
  intros Hd. destruct fact_J1 as (Hj & W & HP).
  pose proof (iv_l1 _ _ _ _ _ _ _ _ _ IV) as L1. rewrite !adv_idx in L1.
  fold o3 o2 in L1. fold (j2 o3 k) (j1 o2 o3 k) in L1.
  apply (lv_bar J1 l1 _ (dead = 2%nat) _ ltac:(lia) L1); assumption.
Qed.

Lemma fact_J0 : (dead <= 2)%nat -> (J0 <= N)%nat /\ wf (sigma J0 s0) /\ prog (im (sigma J0 s0)) = P.
Proof.
  intros Hd. destruct fact_J1 as (Hj & W & HP). destruct (fact1 Hd) as [F1 _].
  subst J0 o1. unfold j0. fold J1. split.
  - destruct (oc l1) eqn:E; cbn [b2n]; [|lia]. destruct (oc_some _ E) as [x Hx].
    pose proof (live_lt J1 x (F1 x Hx) Hj). lia.
  - apply adv_live; assumption.
Qed.

Lemma fact0 : (dead <= 1)%nat ->
  (forall x, l0 = Some x -> live_at J0 x) /\ (dead = 1%nat <-> o0 && rd ev J0 = true).
Proof.
  intros Hd. destruct (fact_J0 ltac:(lia)) as (Hj & W & HP).
  pose proof (iv_l0 _ _ _ _ _ _ _ _ _ IV) as L0. rewrite !adv_idx in L0.
  fold o3 o2 o1 in L0. fold (j2 o3 k) (j1 o2 o3 k) (j0 o1 o2 o3 k) in L0.
  apply (lv_bar J0 l0 _ (dead = 1%nat) _ ltac:(lia) L0); assumption.
Qed.

Lemma fact_dead : dead = deadf ev o0 o1 o2 o3 k.
Proof.
  pose proof (iv_dead _ _ _ _ _ _ _ _ _ IV) as Hd3. destruct fact2 as [_ H2].
  unfold deadf. fold J2 J1 J0.
  destruct (o2 && rd ev J2); [apply H2; reflexivity|].
  assert (Hd2 : (dead <= 2)%nat) by (destruct (Nat.eq_dec dead 3) as [E|]; [apply H2 in E; discriminate E|lia]).
  destruct (fact1 Hd2) as [_ H1].
  destruct (o1 && rd ev J1); [apply H1; reflexivity|].
  assert (Hd1 : (dead <= 1)%nat) by (destruct (Nat.eq_dec dead 2) as [E|]; [apply H1 in E; discriminate E|lia]).
  destruct (fact0 Hd1) as [_ H0].
  destruct (o0 && rd ev J0); [apply H0; reflexivity|].
  destruct (Nat.eq_dec dead 1) as [E|]; [apply H0 in E; discriminate E|lia].
Qed.

(* the fetch position, when it is on path *)
Lemma factF : dead = 0%nat ->
  (JF <= N)%nat /\ wf (sigma JF s0) /\ prog (im (sigma JF s0)) = P /\ exitc (sigma JF s0) = None /\
  pc (pst p) = pc (sigma JF s0).
Proof.
  intros Hd. destruct (fact_J0 ltac:(lia)) as (Hj & W & HP). destruct (fact0 ltac:(lia)) as [F0 _].
  pose proof (iv_fetch _ _ _ _ _ _ _ _ _ IV Hd) as HF. cbv zeta in HF. rewrite !adv_idx in HF.
  fold o3 o2 o1 o0 in HF. fold (j2 o3 k) (j1 o2 o3 k) (j0 o1 o2 o3 k) (jF o0 o1 o2 o3 k) in HF. fold JF in HF.
  destruct HF as (WF & HPF & HexF & HpcF). split; [|split; [exact WF|split; [exact HPF|split; [exact HexF|exact HpcF]]]].
  subst JF o0. unfold jF. fold J0. destruct (oc l0) eqn:E; cbn [b2n]; [|lia]. destruct (oc_some _ E) as [x Hx].
  pose proof (live_lt J0 x (F0 x Hx) Hj). lia.
Qed.

End Facts.

(** * The flags of SchedStep.v in terms of the events *)
Section Flags.
Variables (p : pstate) (k : nat) (l0 l1 l2 l3 l4 : latch) (dead : nat).
Hypothesis IV : InvAt P p (sigma k s0) l0 l1 l2 l3 l4 dead.
Hypothesis Hk : (k <= N)%nat.
Let o0 := oc l0. Let o1 := oc l1. Let o2 := oc l2. Let o3 := oc l3.

Lemma busy_link : (dead <= 2)%nat ->
  busyf l1 l2 l3 = o1 && ec ev (j1 o2 o3 k) && (o2 || o3).
Proof.
  intros Hd. destruct (fact1 p k l0 l1 l2 l3 l4 dead IV Hk Hd) as [F1 _].
  subst o1 o2 o3. unfold busyf. fold (oc l2) (oc l3). f_equal.
  destruct (oc l1) eqn:E; cbn [andb].
  - destruct (oc_some _ E) as [x Hx]. unfold ec. rewrite (live_ev _ x (F1 x Hx)), Hx. reflexivity.
  - destruct l1; [discriminate E|reflexivity].
Qed.

Lemma hz_link : (dead <= 1)%nat -> o0 = true ->
  hzflag l0 l1 l2 = (o1 && dst_in (ev (j1 o2 o3 k)) (ev (j0 o1 o2 o3 k))) ||
                    (o2 && dst_in (ev (j2 o3 k)) (ev (j0 o1 o2 o3 k))).
Proof.
  intros Hd Ho0. destruct (fact0 p k l0 l1 l2 l3 l4 dead IV Hk Hd) as [F0 _].
  destruct (fact1 p k l0 l1 l2 l3 l4 dead IV Hk ltac:(lia)) as [F1 _].
  destruct (fact2 p k l0 l1 l2 l3 l4 dead IV Hk) as [F2 _].
  subst o0 o1 o2 o3. destruct (oc_some _ Ho0) as [y Hy].
  rewrite (live_ev _ y (F0 y Hy)). rewrite Hy. cbn [hzflag]. f_equal.
  - destruct (oc l1) eqn:E; cbn [andb].
    + destruct (oc_some _ E) as [x Hx]. rewrite (live_ev _ x (F1 x Hx)), dst_in_reads, Hx. reflexivity.
    + destruct l1; [discriminate E|reflexivity].
  - destruct (oc l2) eqn:E; cbn [andb].
    + destruct (oc_some _ E) as [x Hx]. rewrite (live_ev _ x (F2 x Hx)), dst_in_reads, Hx. reflexivity.
    + destruct l2; [discriminate E|reflexivity].
Qed.

Lemma fetch_link : dead = 0%nat ->
  is_some (instr_at P (pc (pst p))) = (jF o0 o1 o2 o3 k <? N)%nat.
Proof.
  intros Hd. destruct (factF p k l0 l1 l2 l3 l4 dead IV Hk Hd) as (Hj & W & HP & Hex & Hpc).
  fold o0 o1 o2 o3 in Hj, W, HP, Hex, Hpc. set (JF := jF o0 o1 o2 o3 k) in *. rewrite Hpc.
  destruct (Nat.ltb_spec JF N) as [Hlt|Hge].
  - destruct (HN1 JF Hlt) as [Hnd _]. unfold single_done, has_instr in Hnd. rewrite Hex, HP in Hnd.
    destruct (instr_at P (pc (sigma JF s0))); [reflexivity|discriminate Hnd].
  - assert (JF = N) by lia. subst JF. pose proof HN2 as Hdn. rewrite <- H in Hdn.
    unfold single_done, has_instr in Hdn. rewrite Hex, HP in Hdn.
    destruct (instr_at P (pc _)); [discriminate Hdn|reflexivity].
Qed.

(* an instruction that sets the exit code is a redirect event *)
Lemma exit_redirect j x : live_at j x -> exitc (nxt (sigma j s0)) <> None -> rd ev j = true.
Proof.
  intros L Hx. unfold rd. rewrite (live_ev j x L). cbn [ev_instr ev_redirect].
  destruct (exitc (nxt (sigma j s0))); [|congruence]. cbn [is_some]. apply Bool.orb_true_r.
Qed.

End Flags.

(** * One cycle: the view of the new state satisfies [T] one step later *)
Lemma oc_true_some n : nonempty n = true -> oc n = true. Proof. exact (fun H => H). Qed.

Lemma view_step t p k l0 l1 l2 l3 l4 dead p' :
  InvAt P p (sigma k s0) l0 l1 l2 l3 l4 dead -> (k <= N)%nat ->
  T ev N t (oc l0) (oc l1) (oc l2) (oc l3) (stalled p) k ->
  pipe_step p = (p', None) ->
  exists n0 n1 n2 n3 n4, lat p' = [n0; n1; n2; n3; n4] /\
    T ev N (S t) (oc n0) (oc n1) (oc n2) (oc n3) (stalled p') (k + b2n (oc l3)).
Proof.
  intros IV Hk HT Hps. pose proof (iv_shape _ _ _ _ _ _ _ _ _ IV) as Sh.
  pose proof (fact_dead p k l0 l1 l2 l3 l4 dead IV Hk) as Hdead.
  destruct (fact2 p k l0 l1 l2 l3 l4 dead IV Hk) as [F2 Hd3].
  (* the cycle redirects from MEM *)
  assert (HA : forall md, stalled p = md -> m2 md = 0%nat -> flush3 p' l2 dead ->
            exists n0 n1 n2 n3 n4, lat p' = [n0; n1; n2; n3; n4] /\
              T ev N (S t) (oc n0) (oc n1) (oc n2) (oc n3) (stalled p') (k + b2n (oc l3))).
  { intros md Hmd Hm2 (n3 & n4 & Hlat & Hn3 & Hn2 & Hd & Hst').
    exists None, None, None, n3, n4. split; [exact Hlat|]. rewrite Hst'. cbn [oc nonempty]. fold (oc n3).
    rewrite (oc_true_some _ Hn3). rewrite Hmd in HT. fold (oc l2) in Hn2. rewrite Hn2 in HT, Hd3.
    apply (T_flush3 ev N ev_ecall_nodst t (oc l0) (oc l1) (oc l3) md k HT); [|exact Hm2].
    cbn [andb] in Hd3. apply Hd3. exact Hd. }
  destruct (shape_mode_cases no_icache p Sh) as [Hst|(km & d & Hst & [-> | ->])].
  - (* not stalled *)
    destruct (ctl_normal P Hsup p _ l0 l1 l2 l3 l4 dead p' IV Hst Hps)
      as [HF3 | [(Hl2 & Hl3 & Hec & (n2 & n4 & Hlat & Hn2 & Hst' & Hfd & Hex)) |
              (n0 & n1 & n2 & n3 & n4 & Hlat & Hdn3 & Hn0 & Hn1 & Hn2 & Hn3 & Hst')]].
    + apply (HA None Hst eq_refl HF3).
    + (* an ecall fires and exits *)
      exists None, None, n2, None, n4. split; [exact Hlat|]. rewrite Hst'. cbn [oc nonempty]. fold (oc n2).
      rewrite (oc_true_some _ Hn2). rewrite Hst in HT. subst l2 l3. cbn [oc nonempty b2n] in *.
      rewrite Nat.add_0_r.
      assert (Ho1 : oc l1 = true) by (destruct l1; [reflexivity|discriminate Hec]).
      rewrite Ho1 in HT. apply (T_exit_normal ev N ev_ecall_nodst t (oc l0) k HT).
      destruct (oc_some _ Ho1) as [x1 Hx1].
      destruct (fact1 p k l0 l1 None None l4 dead IV Hk) as [F1 _].
      { destruct (Nat.eq_dec dead 3) as [E|]; [apply Hd3 in E; discriminate E|].
        pose proof (iv_dead _ _ _ _ _ _ _ _ _ IV). lia. }
      specialize (F1 x1 Hx1). unfold j1, j2 in F1. cbn [oc nonempty b2n] in F1. rewrite !Nat.add_0_r in F1.
      apply (exit_redirect k x1 F1 Hex).
    + (* every slot moves on *)
      exists n0, n1, n2, n3, n4. split; [exact Hlat|]. unfold oc at 1 2 3 4. rewrite Hn1, Hn2, Hn3, Hst'.
      fold (oc l0) (oc l1) (oc l2). fold (oc n0). rewrite Hst in HT.
      assert (Hd2 : (dead <= 2)%nat) by (pose proof (iv_dead _ _ _ _ _ _ _ _ _ IV); lia).
      apply (T_shift ev N ev_ecall_nodst t (oc l0) (oc l1) (oc l2) (oc l3) k (oc n0)
               (hzflag l0 l1 l2) (busyf l1 l2 l3) HT).
      * rewrite <- Hdead. exact Hdn3.
      * apply (busy_link p k l0 l1 l2 l3 l4 dead IV Hk Hd2).
      * intros Ho0 Hd1. rewrite <- Hdead in Hd1. apply (hz_link p k l0 l1 l2 l3 l4 dead IV Hk Hd1 Ho0).
      * intros Ho0. destruct l0; [discriminate Ho0|reflexivity].
      * intros Hd0. rewrite <- Hdead in Hd0. unfold oc at 1. rewrite Hn0.
        apply (fetch_link p k l0 l1 l2 l3 l4 dead IV Hk Hd0).
  - (* stalled at ID *)
    destruct (ctl_stall1 P Hsup p _ l0 l1 l2 l3 l4 dead d p' IV Hst Hps)
      as (Hd12 & Hl1 & Hd1 & [HF3 | (n1 & n3 & n4 & Hlat & Hdn3 & Hn1 & Hn3 & Hst')]).
    + apply (HA (Some (1, d)) Hst eq_refl HF3).
    + exists l0, n1, None, n3, n4. split; [exact Hlat|]. unfold oc at 2 3 4. rewrite Hn1, Hn3, Hst'.
      cbn [nonempty]. fold (oc l2). rewrite Hst in HT. fold (oc l1) in Hl1. rewrite Hl1 in HT.
      apply (T_stall1 ev N ev_ecall_nodst t (oc l0) (oc l2) (oc l3) d k HT Hd12).
      * intros Hd. rewrite (Hd1 Hd). reflexivity.
      * rewrite <- Hl1, <- Hdead. exact Hdn3.
  - (* stalled at EX *)
    destruct (ctl_stall2 P Hsup p _ l0 l1 l2 l3 l4 dead d p' IV Hst Hps)
      as (Hl2 & [(-> & Hl3 & n1 & n4 & Hlat & Hn1 & Hst') |
                 [(-> & Hl3 & n1 & n2 & Hlat & Hn1 & Hn2 & Hfd & Hst') |
                  (-> & Hl3 & n2 & n4 & Hlat & Hn2 & Hst' & Hfd & Hex)]]).
    + exists l0, n1, l2, None, n4. split; [exact Hlat|]. unfold oc at 2. rewrite Hn1, Hst'.
      fold (oc l1). fold (oc l2) in Hl2. fold (oc l3) in Hl3. rewrite Hst, Hl2, Hl3 in HT. rewrite Hl2, Hl3.
      cbn [oc nonempty b2n]. rewrite Nat.add_1_r. apply (T_stall2_wait ev N ev_ecall_nodst t _ _ k HT).
    + exists l0, n1, n2, None, None. split; [exact Hlat|]. unfold oc at 2 3. rewrite Hn1, Hn2, Hst'.
      fold (oc l1). fold (oc l2) in Hl2. subst l3. rewrite Hst, Hl2 in HT.
      cbn [oc nonempty b2n] in *. rewrite Nat.add_0_r. apply (T_stall2_fire ev N ev_ecall_nodst t _ _ k HT).
    + exists None, None, n2, None, n4. split; [exact Hlat|]. unfold oc at 3. rewrite Hn2, Hst'.
      fold (oc l2) in Hl2. subst l3. rewrite Hst, Hl2 in HT.
      cbn [oc nonempty b2n] in *. rewrite Nat.add_0_r. apply (T_exit_stall2 ev N ev_ecall_nodst t _ _ k HT).
      destruct (oc_some _ Hl2) as [x2 Hx2]. specialize (F2 x2 Hx2).
      unfold j2 in F2. cbn [oc nonempty b2n] in F2. rewrite Nat.add_0_r in F2.
      apply (exit_redirect k x2 F2 Hex).
Qed.

(** * The invariant of the timing theorem *)
Definition J (t : nat) (p : pstate) (k : nat) : Prop :=
  (exists l0 l1 l2 l3 l4 dead, InvAt P p (sigma k s0) l0 l1 l2 l3 l4 dead /\
     T ev N t (oc l0) (oc l1) (oc l2) (oc l3) (stalled p) k) \/
  (Exiting P p (sigma k s0) /\ (X ev k + 1 = t)%nat).

Lemma J_of t p' k' n0 n1 n2 n3 n4 :
  Inv P p' (sigma k' s0) \/ Exiting P p' (sigma k' s0) -> lat p' = [n0; n1; n2; n3; n4] ->
  T ev N t (oc n0) (oc n1) (oc n2) (oc n3) (stalled p') k' -> J t p' k'.
Proof.
  intros [(l0 & l1 & l2 & l3 & l4 & dead & IV)|E] Hlat HT.
  - left. exists l0, l1, l2, l3, l4, dead. split; [exact IV|].
    pose proof (iv_lat _ _ _ _ _ _ _ _ _ IV) as Hl. rewrite Hlat in Hl. injection Hl as -> -> -> -> ->. exact HT.
  - right. split; [exact E|]. destruct E as (l0 & x3 & l4 & Hl & _). rewrite Hlat in Hl.
    injection Hl as -> -> -> -> ->. apply (T_3 _ _ _ _ _ _ _ _ _ HT). reflexivity.
Qed.

Lemma T_bound t o0 o1 o2 o3 md k : T ev N t o0 o1 o2 o3 md k -> (k < N)%nat -> (t <= X ev k + 1)%nat.
Proof.
  intros [R H3 H2 H1 H0 HF] Hk.
  destruct o3; [specialize (H3 eq_refl); lia|].
  destruct o2; [specialize (H2 eq_refl); unfold j2 in H2; cbn [b2n] in H2; rewrite Nat.add_0_r in H2; lia|].
  destruct o1.
  { unfold deadf, j1, j2 in H1. cbn [b2n andb] in H1. rewrite !Nat.add_0_r in H1.
    assert (Hd : ((if rd ev k then 2 else if o0 && rd ev (j0 true false false k) then 1 else 0) <= 2)%nat)
      by (destruct (rd ev k); [lia|]; destruct (o0 && _); lia).
    specialize (H1 eq_refl Hd). lia. }
  destruct o0.
  { unfold deadf, j0, j1, j2 in H0. cbn [b2n andb] in H0. rewrite !Nat.add_0_r in H0.
    assert (Hd : ((if rd ev k then 1 else 0) <= 1)%nat) by (destruct (rd ev k); lia).
    destruct (H0 eq_refl Hd eq_refl) as (Hx & _). lia. }
  unfold deadf, jF, j0, j1, j2 in HF. cbn [b2n andb] in HF. rewrite !Nat.add_0_r in HF.
  destruct (HF eq_refl eq_refl Hk) as (Hx & _). lia.
Qed.

Lemma J_bound t p k : J t p k -> (k < N)%nat -> (t <= X ev k + 1)%nat.
Proof.
  intros [(l0 & l1 & l2 & l3 & l4 & dead & _ & HT)|[_ Hx]] Hk; [|lia].
  exact (T_bound _ _ _ _ _ _ _ HT Hk).
Qed.

Lemma J_init : wf s0 -> prog (im s0) = P -> exitc s0 = None -> J 0 (pipe_init s0 true) 0.
Proof.
  intros W HP Hex. left. exists None, None, None, None, None, 0%nat.
  split; [|apply T_init; exact ev_ecall_nodst].
  destruct (inv_init P s0 W HP Hex) as (l0 & l1 & l2 & l3 & l4 & dead & IV).
  pose proof (iv_lat _ _ _ _ _ _ _ _ _ IV) as Hl. cbn [pipe_init lat] in Hl.
  injection Hl as <- <- <- <- <-.
  pose proof (fact_dead _ 0 _ _ _ _ _ _ IV ltac:(lia)) as Hd. cbn in Hd. subst dead. exact IV.
Qed.

(** * One cycle of the pipeline from a state in [J] *)
Lemma J_step t p k : J t p k -> (k < N)%nat ->
  pipe_done p = false /\
  exists p', pipe_step p = (p', None) /\
    ((lat_at (lat p') 4 = None /\ J (S t) p' k) \/
     (exists x, lat_at (lat p') 4 = Some x /\ sl_addr x = pc (sigma k s0) /\ S t = (X ev k + 2)%nat /\
        ((S k < N)%nat /\ J (S t) p' (S k) \/ S k = N /\ pipe_done p' = true))).
Proof.
  intros [(l0 & l1 & l2 & l3 & l4 & dead & IV & HT)|[E Hx]] Hk.
  - assert (Hnd : pipe_done p = false).
    { rewrite (done_iff P _ _ _ _ _ _ _ _ IV). apply (HN1 k Hk). }
    split; [exact Hnd|].
    pose proof (inv_step_e P Hsup _ _ _ _ _ _ _ _ IV Hnd) as Hstep. unfold step_goal in Hstep.
    destruct (fact_J2 p k l0 l1 l2 l3 l4 dead IV ltac:(lia)) as (Hj2 & _). unfold j2 in Hj2.
    destruct (pipe_step p) as [p' [f|]] eqn:Hps.
    { exfalso. destruct Hstep as (tm & Hss & Hnd2 & _). rewrite adv_idx in Hss, Hnd2.
      destruct (Nat.eq_dec (k + b2n (oc l3)) N) as [E|NE]; [rewrite E in Hnd2; congruence|].
      destruct (HN1 (k + b2n (oc l3))%nat ltac:(lia)) as [_ Hok]. rewrite Hss in Hok. discriminate Hok. }
    exists p'. split; [reflexivity|]. destruct Hstep as (Hinv' & Hl4 & _). rewrite adv_idx in Hinv'.
    destruct (view_step t p k l0 l1 l2 l3 l4 dead p' IV ltac:(lia) HT Hps)
      as (n0 & n1 & n2 & n3 & n4 & Hlat & HT').
    destruct (oc l3) eqn:Ho3; cbn [b2n] in *.
    + right. destruct (oc_some _ Ho3) as [x3 Hx3]. rewrite Hx3 in Hl4. cbn [option_map] in Hl4.
      exists (wb_slot x3). split; [exact Hl4|].
      destruct (fact3 p k l0 l1 l2 l3 l4 dead IV x3 Hx3) as (_ & _ & (_ & Ha & _)).
      split; [exact Ha|]. pose proof (T_3 _ _ _ _ _ _ _ _ _ HT eq_refl) as H3. split; [lia|].
      rewrite Nat.add_1_r in *.
      destruct (Nat.eq_dec (S k) N) as [EN|NN].
      * right. split; [exact EN|]. destruct Hinv' as [(m0 & m1 & m2' & m3 & m4 & dd & IV')|E'].
        -- rewrite (done_iff P _ _ _ _ _ _ _ _ IV'), EN. exact HN2.
        -- exfalso. destruct (exiting_step P Hsup _ _ E') as (_ & Hsd & _). rewrite EN in Hsd. congruence.
      * left. split; [lia|]. eapply J_of; eauto.
    + left. rewrite Nat.add_0_r in *. destruct l3; [discriminate Ho3|]. split; [exact Hl4|].
      eapply J_of; eauto.
  - destruct (exiting_step P Hsup _ _ E) as (Hpd & Hsd & Hss & Hsd' & p' & Hps & Hpd' & _ & Htr).
    split; [exact Hpd|]. exists p'. split; [exact Hps|]. right.
    destruct (lat_at (lat p') 4) as [x|]; [|discriminate Htr]. cbn [some_addr] in Htr. injection Htr as Ha.
    exists x. split; [reflexivity|]. split; [exact Ha|]. split; [lia|]. right. split; [|exact Hpd'].
    rewrite <- sigma_S in Hsd'.
    destruct (Nat.eq_dec (S k) N) as [EN|NN]; [exact EN|exfalso].
    destruct (HN1 (S k) ltac:(lia)) as [Hc _]. congruence.
Qed.

(** * The run *)
Definition retire_of (j : nat) : Z * nat := (pc (sigma j s0), (X ev j + 2)%nat).

Lemma run_sched c : forall t p k, J t p k -> (k < N)%nat -> (t + c = X ev (N - 1) + 2)%nat ->
  exists p', pipe_run c p = (p', PDone) /\
    pipe_retire_from t c p = map retire_of (seq k (N - k)) /\ pipe_run_steps c p = c.
Proof.
  induction c as [|c IH]; intros t p k HJ Hk Htc.
  { exfalso. pose proof (J_bound t p k HJ Hk). pose proof (X_mono ev k (N - 1) ltac:(lia)). lia. }
  destruct (J_step t p k HJ Hk) as (Hnd & p' & Hps & [(Hl4 & HJ') | (x & Hl4 & Ha & Ht & Hnext)]).
  - destruct (IH (S t) p' k HJ' Hk ltac:(lia)) as (pf & Hrun & Hret & Hsteps).
    exists pf. cbn [pipe_run pipe_retire_from pipe_run_steps]. rewrite Hnd, Hps, Hl4. cbn [some_ret app].
    split; [exact Hrun|]. split; [exact Hret|]. rewrite Hsteps. reflexivity.
  - replace (N - k)%nat with (S (N - S k)) by lia. cbn [seq map].
    cbn [pipe_run pipe_retire_from pipe_run_steps]. rewrite Hnd, Hps, Hl4. cbn [some_ret app].
    assert (Hhead : (sl_addr x, S t) = retire_of k) by (unfold retire_of; rewrite Ha, Ht; reflexivity).
    rewrite Hhead.
    destruct Hnext as [(Hk' & HJ') | (HN & Hpd')].
    + destruct (IH (S t) p' (S k) HJ' Hk' ltac:(lia)) as (pf & Hrun & Hret & Hsteps).
      exists pf. split; [exact Hrun|]. split; [rewrite Hret; reflexivity|]. rewrite Hsteps. reflexivity.
    + assert (c = 0)%nat by (replace (N - 1)%nat with k in Htc by lia; lia). subst c.
      exists p'. cbn [pipe_run pipe_retire_from pipe_run_steps]. rewrite Hpd'.
      replace (N - S k)%nat with 0%nat by lia. cbn [seq map]. repeat split.
Qed.

End Link.
