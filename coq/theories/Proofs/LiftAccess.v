(* Proofs/LiftAccess.v — the exact outcome of one cached access against the flat memory holding
   the logical contents: the error of a cached access is a FUNCTION [cerr] of the geometry, the
   write policy, the kind, width and address of the access; an access without error returns /
   performs what the flat memory returns / performs. *)
From Coq Require Import Lia ZifyBool.
From ArchSim Require Import Model.Base Model.Mem Model.Cache
  Proofs.WordLemmas Proofs.MapLemmas Proofs.CacheArith Proofs.CacheInv Proofs.C03Proofs Proofs.LiftFlat.
Open Scope Z_scope.
Local Arguments Z.mul : simpl never.
Local Arguments Z.add : simpl never.
Local Arguments Z.sub : simpl never.
Local Arguments Z.pow : simpl never.
Local Arguments Z.div : simpl never.
Local Arguments Z.modulo : simpl never.
Local Arguments Z.of_nat : simpl never.
Local Arguments Z.to_nat : simpl never.

(* the access [a, a + nbits/8) crosses a 32-bit word boundary *)
Definition xw (nbits a : Z) : bool := (a mod 4294967296) mod 4 + nbits / 8 >? 4.
Definition balign_of (c : ccfg) (a : Z) : Z := da_balign (decode_addr (ibits c) (bbits c) a).

(* the error a cache with geometry c and write policy wt answers an access with *)
Definition cerr (c : ccfg) (wt write : bool) (nbits a : Z) : option err :=
  let x := a mod 4294967296 in
  if write && wt then
    if xw nbits a then Some (EOffset (x mod 4) (4 - nbits / 8))
    else if x <? 16384 then Some (aerr x) else None
  else
    if x <? 16384 then Some (aerr (balign_of c a))
    else if xw nbits a then Some (EOffset (x mod 4) (4 - nbits / 8)) else None.

Lemma xw_mod nbits a : xw nbits (a mod 4294967296) = xw nbits a.
Proof. unfold xw. rewrite Z.mod_mod by lia. reflexivity. Qed.

Lemma balign_of_mod c a : balign_of c (a mod 4294967296) = balign_of c a.
Proof. unfold balign_of. rewrite decode_mod. reflexivity. Qed.

Lemma cerr_mod c wt w nbits a : cerr c wt w nbits (a mod 4294967296) = cerr c wt w nbits a.
Proof. unfold cerr. rewrite xw_mod, balign_of_mod, Z.mod_mod by lia. reflexivity. Qed.

Lemma cerr_cong c wt w nbits a a' : a mod 4294967296 = a' mod 4294967296 ->
  cerr c wt w nbits a = cerr c wt w nbits a'.
Proof. intros H. rewrite <- (cerr_mod c wt w nbits a), <- (cerr_mod c wt w nbits a'), H. reflexivity. Qed.

Lemma xw_true_iff nbits a : xw nbits a = true <-> cross_word nbits a.
Proof. unfold xw, cross_word. lia. Qed.
Lemma xw_false_iff nbits a : xw nbits a = false <-> in_word nbits a.
Proof. unfold xw, in_word. lia. Qed.

(** * Reads *)
Lemma dc_read_exact d f nbits a counted r d' p : CInv d -> Flat f d -> okw nbits ->
  dc_read d nbits a counted = (r, d', p) ->
  CInv d' /\ Flat f d' /\ wthrough d' = wthrough d /\ cfg (dc d') = cfg (dc d) /\
  match cerr (cfg (dc d)) (wthrough d) false nbits a with
  | Some e => r = Err e
  | None => r = mem_read rv_memcfg f nbits a /\ exists v, r = Ok v
  end /\
  (xw nbits a = false -> a mod 4294967296 < 16384 ->
   mem_read rv_memcfg f nbits a = Err (aerr (a mod 4294967296))).
Proof.
  intros HC HF Hw H. pose proof (cinv_sinv d HC) as HS.
  destruct (dc_read_ok d nbits a counted r d' p HC Hw H) as (HC' & Hwt & Hcfg & SL & Rin & Rlow & Rcross).
  pose proof (byoff_eq _ _ a HS) as Hbo. pose proof (kof_div nbits Hw) as Hk.
  split; [exact HC'|]. split; [apply (flat_same f d d' HF SL)|]. split; [exact Hwt|]. split; [exact Hcfg|].
  split.
  - unfold cerr. rewrite andb_false_l. fold (cdecode (dc d) a) in *.
    destruct (a mod 4294967296 <? 16384) eqn:Elo.
    + unfold balign_of. apply Rlow. lia.
    + unfold xw. rewrite <- Hbo, <- Hk.
      destruct (da_byoff (cdecode (dc d) a) + Z.of_nat (kof nbits) >? 4) eqn:Ex.
      * apply Rcross; lia.
      * assert (Hin : da_byoff (cdecode (dc d) a) + Z.of_nat (kof nbits) <= 4) by lia.
        rewrite (Rin Hin ltac:(lia)).
        destruct (mem_read_inword f nbits a Hw) as [Rok _]; [rewrite <- Hbo; exact Hin|].
        rewrite Rok.
        -- split; [|eexists; reflexivity]. f_equal. apply le_bytes_ext. intros j Hj. symmetry. apply HF.
           destruct (inword_range _ _ a HS) as (_ & Ho & Hfit & _). lia.
        -- lia.
        -- intros j Hj. apply (flat_bytes f d _ HC HF).
           destruct (inword_range _ _ a HS) as (_ & Ho & Hfit & _). lia.
  - intros Hx Hlo. unfold xw in Hx.
    destruct (mem_read_inword f nbits a Hw) as [_ Rbad]; [rewrite Hk; lia|]. apply Rbad. exact Hlo.
Qed.

(** * Writes *)
(* the two cases the master lemma [dc_write_ok] leaves open: word-crossing writes below 2^14 *)
Lemma wt_cross_err d nbits a v e d' p : CInv d -> okw nbits -> wthrough d = true ->
  xw nbits a = true -> dc_write d nbits a v false = (e, d', p) ->
  e = Some (EOffset ((a mod 4294967296) mod 4) (4 - nbits / 8)).
Proof.
  intros HC Hw Hwt Hx H. pose proof (cinv_sinv d HC) as HS.
  rewrite (dc_write_wt_eq d nbits a v Hwt) in H. cbv zeta in H.
  pose proof (byoff_eq _ _ a HS) as Hbo. unfold xw in Hx. rewrite <- Hbo in *.
  destruct (inword_range _ _ a HS) as (_ & Ho & _).
  set (o := da_byoff (cdecode (dc d) a)) in *.
  destruct Hw as [-> | [-> | ->]].
  - change (8 / 8) with 1 in Hx. lia.
  - change (16 =? 16) with true in H. change (16 / 8) with 2 in *. replace (o >? 2) with true in H by lia.
    cbn [andb] in H. injection H as <- _ _. reflexivity.
  - change (32 =? 16) with false in H. change (32 =? 32) with true in H. change (32 / 8) with 4 in *.
    replace (o =? 0) with false in H by lia. cbn [andb negb] in H. injection H as <- _ _. reflexivity.
Qed.

Lemma wb_low_err d nbits a v e d' p : CInv d -> wthrough d = false ->
  a mod 4294967296 < 16384 -> dc_write d nbits a v false = (e, d', p) ->
  e = Some (aerr (balign_of (cfg (dc d)) a)).
Proof.
  intros HC Hwt Hlo H. pose proof (cinv_sinv d HC) as HS.
  rewrite (dc_write_wb_eq d nbits a v Hwt) in H. cbv zeta in H.
  destruct (inword_range _ _ a HS) as (_ & _ & _ & H14 & _).
  rewrite cache_read_block_eq in H.
  destruct (find_block (blocks (get_set (dc d) (da_idx (cdecode (dc d) a)))) (da_tag (cdecode (dc d) a)) 0)
    as [bi|] eqn:Hf.
  - destruct (find_hit_facts _ _ a bi HS Hf) as (_ & _ & _ & _ & _ & Hge & _). exfalso. lia.
  - cbv beta iota in H. cbn [dc lower upd_dc] in H. unfold block_words in H. cbn [dc upd_dc] in H.
    rewrite (read_block_lower_bad _ _ a HS ltac:(lia)) in H.
    injection H as <- _ _. reflexivity.
Qed.

Lemma dc_write_exact d f nbits a v e d' p : CInv d -> Flat f d -> okw nbits -> 0 <= v < 2 ^ nbits ->
  dc_write d nbits a v false = (e, d', p) ->
  CInv d' /\ wthrough d' = wthrough d /\ cfg (dc d') = cfg (dc d) /\
  e = cerr (cfg (dc d)) (wthrough d) true nbits a /\
  match e with
  | None => snd (mem_write rv_memcfg f nbits a v) = None /\ Flat (fst (mem_write rv_memcfg f nbits a v)) d'
  | Some _ => Flat f d'
  end /\
  (xw nbits a = false -> a mod 4294967296 < 16384 ->
   mem_write rv_memcfg f nbits a v = (f, Some (aerr (a mod 4294967296)))).
Proof.
  intros HC HF Hw Hv H. pose proof (cinv_sinv d HC) as HS.
  destruct (dc_write_ok d nbits a v e d' p HC Hw Hv H) as (HC' & Hwt & Hcfg & Win & Wlow & Wcross).
  pose proof (byoff_eq _ _ a HS) as Hbo. pose proof (kof_div nbits Hw) as Hk.
  split; [exact HC'|]. split; [exact Hwt|]. split; [exact Hcfg|].
  assert (Hlast : xw nbits a = false -> a mod 4294967296 < 16384 ->
                  mem_write rv_memcfg f nbits a v = (f, Some (aerr (a mod 4294967296)))).
  { intros Hx Hlo. unfold xw in Hx.
    destruct (mem_write_inword f nbits a v Hw) as [_ Wbad]; [rewrite Hk; lia|]. apply Wbad. exact Hlo. }
  destruct (xw nbits a) eqn:Ex.
  - (* crossing *)
    assert (Hc : da_byoff (cdecode (dc d) a) + Z.of_nat (kof nbits) > 4) by (unfold xw in Ex; lia).
    destruct (Wcross Hc) as (SL & e0 & -> & He0).
    split; [|split; [apply (flat_same f d d' HF SL) | exact Hlast]].
    unfold cerr. rewrite Ex. destruct (wthrough d) eqn:Ewt; cbn [andb].
    + apply (wt_cross_err d nbits a v _ d' p HC Hw Ewt Ex H).
    + destruct (a mod 4294967296 <? 16384) eqn:Elo.
      * apply (wb_low_err d nbits a v _ d' p HC Ewt ltac:(lia) H).
      * rewrite (He0 ltac:(lia)), Hbo, Hk. reflexivity.
  - assert (Hin : da_byoff (cdecode (dc d) a) + Z.of_nat (kof nbits) <= 4) by (unfold xw in Ex; lia).
    destruct (Z_le_gt_dec 16384 (a mod 4294967296)) as [Hlo|Hlt].
    + destruct (Win Hin Hlo) as [-> L].
      split; [|split; [|exact Hlast]].
      * unfold cerr. rewrite Ex. replace (a mod 4294967296 <? 16384) with false by lia.
        destruct (true && wthrough d); reflexivity.
      * apply (flat_after_write f d d' nbits a v Hw HF (proj1 (xw_false_iff nbits a) Ex) Hlo L).
    + destruct (Wlow Hin ltac:(lia)) as [-> SL].
      split; [|split; [apply (flat_same f d d' HF SL) | exact Hlast]].
      unfold cerr. rewrite Ex. replace (a mod 4294967296 <? 16384) with true by lia.
      destruct (wthrough d); cbn [andb]; reflexivity.
Qed.
