(* SchedStep.v — layer 1 of the timing theorem of C07: which latches are occupied, and in which
   stall mode the pipeline is, after one [pipe_step] from a state in the simulation invariant
   [InvAt] (PipeInv.v).  The skeletons of the three lemmas follow [step_normal_e], [step_stall1_e],
   [step_stall2_e] of PipeInvEcall.v (whose exported conclusion [step_goal] does not say where
   the slots go); here only the occupancy / stall-mode facts are derived, the invariant of the new
   state is taken from [inv_step_e]. *)
From Coq Require Import Lia ZifyBool.
From ArchSim Require Import Model.Base Model.Mem Model.Cache Model.Fmt Model.RV Model.Single
  Model.RVSplit Model.Pipe Proofs.WordLemmas Proofs.C01Step Proofs.SplitExec Proofs.C02Split
  Proofs.PipeLaws Proofs.PipeShape Proofs.PipeInv Proofs.PipeInvBase Proofs.PipeInvStages
  Proofs.PipeInvStraight Proofs.PipeInvControl Proofs.PipeInvEcall Proofs.SchedDefs.
Open Scope Z_scope.

Ltac Zify.zify_post_hook ::= Z.to_euclidean_division_equations.
Local Arguments Z.mul : simpl never.
Local Arguments Z.add : simpl never.
Local Arguments Z.sub : simpl never.
Local Arguments Z.of_nat : simpl never.

(** * The decode interlock in terms of the instructions alone *)
Definition src1 (i : instr) : option Z :=
  match i with
  | IR _ _ rs1 _ | II _ _ rs1 _ | ISh _ _ rs1 _ | ILoad _ _ rs1 _ | IJalr _ rs1 _
  | IStore _ rs1 _ _ | IBranch _ rs1 _ _ => Some rs1
  | IEcall | IEbreak => Some 0
  | _ => None
  end.
Definition src2 (i : instr) : option Z :=
  match i with
  | IR _ _ _ rs2 | IStore _ _ rs2 _ | IBranch _ _ rs2 _ => Some rs2
  | _ => None
  end.
Lemma rf_ra1_src i s : rf_ra1 i s = src1 i. Proof. destruct i; reflexivity. Qed.
Lemma rf_ra2_src i s : rf_ra2 i s = src2 i. Proof. destruct i; reflexivity. Qed.

(* does instruction i read the register written by w *)
Definition reads (i : instr) (w : option Z) : bool := hazard_with (src1 i) (src2 i) w.
(* the stall signal of the decode stage working on l0 with l1, l2 ahead *)
Definition hzflag (l0 l1 l2 : latch) : bool :=
  match l0 with
  | Some y => reads (sl_instr y) (latch_wreg l1) || reads (sl_instr y) (latch_wreg l2)
  | None => false
  end.
Definition ecall_in (l : latch) : bool :=
  match l with Some x => is_ecall (sl_instr x) | None => false end.
(* the drain stall of an ecall in latch 1 *)
Definition busyf (l1 l2 l3 : latch) : bool := ecall_in l1 && (nonempty l2 || nonempty l3).

Lemma has_stall_id l0 l1 l2 s : has_stall (id_on true l0 l1 l2 s) = hzflag l0 l1 l2.
Proof.
  destruct l0 as [y|]; [rewrite id_on_some|reflexivity].
  cbn [has_stall id_slot sl_stall hzflag]. unfold id_stall, reads.
  rewrite rf_ra1_src, rf_ra2_src. reflexivity.
Qed.

Lemma has_stall_ex P l1 l2 l3 s n2 s3 : L1ok P l1 -> ex_on l1 l2 l3 s = (n2, s3, None) ->
  has_stall n2 = busyf l1 l2 l3.
Proof.
  intros K1 He. apply ex_on_shape in He. destruct l1 as [y|]; [|subst n2; reflexivity].
  destruct He as (cmp & res & stall & ex & fl & -> & -> & _). destruct K1 as (_ & _ & Hsv & _).
  cbn [has_stall ex_slot sl_stall busyf ecall_in]. unfold ex_busy. rewrite Hsv. reflexivity.
Qed.

(** * The event of an instruction, against the decode interlock *)
Lemma mem_z_nz r a b : r <> 0 -> mem_z r (nz a ++ nz b) = opt_eqb a r || opt_eqb b r.
Proof.
  intros Hr. unfold mem_z. rewrite existsb_app.
  assert (H : forall o, existsb (Z.eqb r) (nz o) = opt_eqb o r).
  { intros [x|]; [|reflexivity]. cbn [nz opt_eqb]. destruct (x =? 0) eqn:E; cbn [existsb]; lia. }
  rewrite !H. reflexivity.
Qed.

Lemma dst_in_reads ij tj i t : dst_in (ev_instr ij tj) (ev_instr i t) = reads i (write_reg ij).
Proof.
  unfold dst_in, reads, hazard_with. cbn [ev_instr ev_dst ev_srcs]. rewrite rf_ra1_src, rf_ra2_src.
  destruct (write_reg ij) as [r|]; [|reflexivity]. cbn [nzo].
  destruct (r =? 0) eqn:E; [reflexivity|]. apply mem_z_nz. lia.
Qed.

(* a step that did not fault: the stage that raised is not this one *)
Ltac nf H :=
  cbn [finish] in H;
  match type of H with
  | context [fault_at ?x ?e] =>
      let K := fresh in
      pose proof (fault_at_not_none x e) as K; destruct (fault_at x e); [discriminate H|congruence]
  end.

Section Step.
Variable P : list instr.
Hypothesis Hsup : Forall (fun i => supported i = true) P.

(** * A flush requested by MEM comes from the barrier *)
Lemma mem_flush_dead dead t l2 n3 : L2ok P l2 -> prog (im t) = P -> lv P True (dead = 3%nat) t l2 Eok ->
  fired l2 = nonempty l2 ->
  match l2, n3 with
  | Some x2, Some x3 =>
      Mok t x3 /\ sl_instr x3 = sl_instr x2 /\ sl_addr x3 = sl_addr x2 /\
      sl_flush x3 = mem_flush x2 /\ sl_exit x3 = sl_exit x2 /\
      snd (single_pipeline_step t) = None /\
      exitc (nxt t) = match sl_exit x3 with Some c => Some c | None => None end /\
      pc (nxt t) = match sl_flush x3 with Some a => a | None => pc t + 4 end
  | None, None => True
  | _, _ => False
  end ->
  flush_of n3 <> None -> dead = 3%nat.
Proof.
  intros K2 HP2 L2 Hfd Hrel3 Hfl. destruct l2 as [x2|], n3 as [x3|]; try contradiction.
  destruct Hrel3 as (_ & Hi3 & Ha3 & Hfl3 & Hex3 & Hok & Hexn & Hpcn).
  cbn [lv] in L2. destruct (L2 Logic.I) as (Wt & (Hx & Ha & Hi) & HE & _ & Hpl).
  destruct (Nat.eq_dec dead 3) as [H3|H3]; [exact H3|exfalso].
  destruct (Hpl H3) as (_ & Hpx & Hpr).
  cbn [fired nonempty] in Hfd.
  assert (Hst : sl_stall x2 = false) by (destruct (sl_stall x2); [discriminate Hfd|reflexivity]).
  destruct K2 as (R2 & _ & _ & Hexi & _).
  cbn [flush_of] in Hfl. rewrite Hfl3 in Hfl. rewrite Hex3 in Hexn.
  destruct (is_ecall (sl_instr x2)) eqn:Hec.
  - apply is_ecall_true in Hec. rewrite (mem_flush_ecall x2 Hec) in Hfl. unfold wb_flush in Hfl.
    destruct (sl_exit x2) as [c|]; [|apply Hfl; reflexivity]. rewrite Hpx in Hexn. discriminate Hexn.
  - assert (Hn : noecall (sl_instr x2) = true).
    { unfold noecall. rewrite Hec, (sup_at P Hsup _ _ R2). reflexivity. }
    apply Hfl. apply (mem_flush_redirects t x2 HE Hst Hn). exact Hpr.
Qed.

(* the slot decode hands on keeps instruction and address *)
Lemma id_on_same l0 l1 l2 s : match l0, id_on true l0 l1 l2 s with
  | Some y, Some z => sl_instr z = sl_instr y /\ sl_addr z = sl_addr y
  | None, None => True
  | _, _ => False
  end.
Proof. destruct l0 as [y|]; [rewrite id_on_some; split; reflexivity|exact Logic.I]. Qed.

(** * The three shapes of a cycle that was not stalled *)
(* A: MEM redirects (taken branch, jal, jalr, exiting ecall in latch 2): latches 0-2 cleared *)
Definition flush3 (p' : pstate) (l2 : latch) (dead : nat) : Prop :=
  exists n3 n4, lat p' = [None; None; None; n3; n4] /\ nonempty n3 = true /\ nonempty l2 = true /\
                dead = 3%nat /\ stalled p' = None.
(* B: an ecall fires in EX and exits: latches 0-1 cleared; t1 is the pre-state of the ecall *)
Definition exit2 (p' : pstate) (t1 : st) : Prop :=
  exists n2 n4, lat p' = [None; None; n2; None; n4] /\ nonempty n2 = true /\ stalled p' = None /\
                fired n2 = true /\ exitc (nxt t1) <> None.

Lemma ctl_normal p s l0 l1 l2 l3 l4 dead p' : InvAt P p s l0 l1 l2 l3 l4 dead -> stalled p = None ->
  pipe_step p = (p', None) ->
  flush3 p' l2 dead \/
  (l2 = None /\ l3 = None /\ ecall_in l1 = true /\ exit2 p' s) \/
  (exists n0 n1 n2 n3 n4, lat p' = [n0; n1; n2; n3; n4] /\ dead <> 3%nat /\
     nonempty n0 = is_some (instr_at P (pc (pst p))) /\
     nonempty n1 = nonempty l0 /\ nonempty n2 = nonempty l1 /\ nonempty n3 = nonempty l2 /\
     stalled p' = (if busyf l1 l2 l3 then Some (2, 2) else if hzflag l0 l1 l2 then Some (1, 2) else None)).
Proof.
  intros [Hl Sh Hz HPp HPs W Hexs Hd D1 L3 L2 L1 L0 HF Hrg Hms Hbc Hpcn Hout Hexc Hic Hfd] Hst Hps.
  assert (Hsv : saved p = None) by (apply (shape_saved_iff no_icache p Sh); exact Hst).
  rewrite (pipe_step_normal p _ _ _ _ _ Hl Hst) in Hps. unfold run_normal in Hps. rewrite Hz in Hps.
  destruct (if_stage P (bumped (pst p)) (sh_im _ _ Sh) HPp)
    as (n0 & s1 & HIF & Hr1 & Hm1 & Ho1 & He1 & Hi1 & Hb1 & Hp1 & HP1 & Hnc1 & Hs0 & Hf0 & Hn0).
  rewrite HIF in Hps. clear HIF.
  destruct (wb_stage P Hsup s l3 s1 HPs L3 W Hexs ltac:(rewrite Hr1; exact Hrg))
    as (s2 & HWB & Hf4 & Hr2 & Hm2 & Ho2 & Hb2 & Hp2 & He2 & Hpc2 & Him2 & Hi2 & W2 & HP2 & Hex2).
  rewrite HWB in Hps. clear HWB. unfold bumped in *. stf.
  destruct (shape_at p _ _ _ _ _ Sh Hl) as (K0 & K1 & K2 & K3 & K4 & KM). rewrite HPp in *.
  assert (Hfd2 : fired l2 = nonempty l2) by (rewrite Hfd, Hst; reflexivity).
  assert (HPt1 : prog (im (adv l2 (adv l3 s))) = P /\ wf (adv l2 (adv l3 s))).
  { apply adv_prog; auto. destruct l2; [apply (L2 Logic.I)|exact Logic.I]. }
  destruct HPt1 as [HPt1 Wt1].
  assert (Hout1 : out s2 = out (adv l2 (adv l3 s))).
  { rewrite Ho2, Ho1, Hout, Hfd2. destruct l2; reflexivity. }
  pose proof (ex_latch_e P Hsup (adv l2 (adv l3 s)) l1 l2 l3 s2 D1 K1) as HEX.
  assert (HFIRE : forall x1, l1 = Some x1 -> sl_instr x1 = IEcall -> l2 = None -> l3 = None ->
     wf (adv l2 (adv l3 s)) /\ exitc (adv l2 (adv l3 s)) = None /\ prog (im (adv l2 (adv l3 s))) = P /\
     onp P (adv l2 (adv l3 s)) x1 /\ Dok (adv l2 (adv l3 s)) x1 /\
     regs s2 = regs (adv l2 (adv l3 s)) /\ ms s2 = ms (adv l2 (adv l3 s)) /\ out s2 = out (adv l2 (adv l3 s))).
  { intros x1 -> Hec -> ->. cbn [adv nonempty lv] in *.
    assert (Hd2 : (dead <= 2)%nat) by lia. destruct (L1 Hd2) as (_ & Hon & Hdk & _). pose proof Hon as (Hx & _).
    csplit; try assumption; [apply Hdk; exact Hst|congruence]. }
  specialize (HEX HFIRE). clear HFIRE.
  destruct (ex_on l1 l2 l3 s2) as [[n2 s3] [e|]] eqn:HE; [nf Hps|].
  pose proof (has_stall_ex P l1 l2 l3 s2 n2 s3 K1 HE) as HSX.
  destruct HEX as (Hne2 & Fr3 & Fm3 & Fe3 & Fi3 & Fb3 & Fp3 & Fpc3 & Fim3 & Hrel2 & Hcase2).
  destruct (mem_on l2 s3) as [[n3 s4] oe] eqn:HM.
  pose proof (mem_stage P Hsup _ _ _ _ _ _ _ HP2 L2 Hfd2
                ltac:(rewrite Fm3, Hm2, Hm1; exact Hms) HM) as (Hr4 & Ho4 & He4 & Hi4 & Hpc4 & Him4 & HMEM).
  destruct oe as [e|]; [nf Hps|].
  destruct HMEM as (Hne3 & Hm4 & Hs3 & Hb4 & Hp4 & Hrel3).
  set (n1 := id_on true l0 l1 l2 s2) in *. set (n4 := option_map wb_slot l3) in *.
  assert (Hs4 : has_stall n4 = false) by (subst n4; destruct l3; reflexivity).
  assert (Hne1 : nonempty n1 = nonempty l0) by apply nonempty_id_on.
  assert (Hf1 : flush_of n1 = None) by apply id_on_flags.
  assert (Hs1 : has_stall n1 = hzflag l0 l1 l2) by apply has_stall_id.
  cbn [finish] in Hps. injection Hps as Hp'.
  pose proof (post_normal p n0 n1 n2 n3 n4 s4 Hst Hsv Hs0 Hs3 Hs4 Hf0 Hf1 Hf4) as HPOST. cbv zeta in HPOST.
  rewrite Hp' in HPOST.
  pose proof (mem_flush_dead dead _ _ _ K2 HP2 L2 Hfd2 Hrel3) as HDEAD.
  destruct (mem_ok_cases_e P Hsup dead _ _ _ K2 HP2 L2 Hfd2 Hrel3)
    as (O2 & [(Hf3 & Hd3 & L3') | [(a & Hf3 & Hn3 & _) | (a & x3 & Hn3 & Hf3 & _)]]).
  3:{ left. rewrite Hf3 in HPOST. destruct HPOST as (Hlat' & Hstl' & Hpc').
      exists n3, n4. split; [exact Hlat'|]. split; [rewrite Hn3; reflexivity|].
      split; [rewrite <- Hne3, Hn3; reflexivity|]. split; [|exact Hstl'].
      apply HDEAD. rewrite Hf3. discriminate. }
  2:{ left. rewrite Hf3 in HPOST. destruct HPOST as (Hlat' & Hstl' & Hpc').
      exists n3, n4. split; [exact Hlat'|]. split; [exact Hn3|].
      split; [rewrite <- Hne3; exact Hn3|]. split; [|exact Hstl'].
      apply HDEAD. rewrite Hf3. discriminate. }
  rewrite Hf3 in HPOST.
  destruct Hcase2 as [(Ho3 & Hs2 & Hf2 & Hfd2' & Hnec) | [(Ho3 & Hs2 & Hf2 & Hfd2' & Hbusy) |
        (Hl2 & Hl3 & Hs2 & Hfd2' & Hok1 & Ho3 & [(Hf2 & Hpl1) | (a & c & Hf2 & Hxn1)])]].
  4:{ (* the ecall fires and exits *)
      right; left. subst l2 l3. rewrite Hf2 in HPOST. destruct HPOST as (Hlat' & Hpc' & Hstl').
      specialize (Hstl' Hs2). cbn [adv nonempty] in *.
      destruct n3 as [?|]; [discriminate Hne3|]. subst n4. cbn [option_map] in *.
      split; [reflexivity|]. split; [reflexivity|].
      assert (Hec1 : ecall_in l1 = true).
      { apply ex_on_shape in HE. destruct l1 as [x1|]; [|subst n2; discriminate Hf2].
        destruct HE as (cmp & res & stall & ex & fl & -> & _ & [[_ ->]|(Hec & _)]);
          [discriminate Hf2|exact Hec]. }
      split; [exact Hec1|]. exists n2, None. split; [exact Hlat'|].
      split; [destruct n2; [reflexivity|discriminate Hfd2']|]. split; [exact Hstl'|].
      split; [exact Hfd2'|]. rewrite Hxn1. discriminate. }
  all: right; right; rewrite Hf2 in HPOST; destruct HPOST as (Hlat' & Hpc' & Hstl');
    exists n0, n1, n2, n3, n4; split; [exact Hlat'|]; split; [exact Hd3|];
    (split; [destruct n0 as [x|]; [destruct Hn0 as (_ & _ & -> & _)|destruct Hn0 as (_ & ->)]; reflexivity|]);
    split; [exact Hne1|]; split; [exact Hne2|]; split; [exact Hne3|];
    rewrite Hstl', HSX, Hs1; reflexivity.
Qed.

(** * A cycle stalled at ID *)
Lemma ctl_stall1 p s l0 l1 l2 l3 l4 dead d p' : InvAt P p s l0 l1 l2 l3 l4 dead ->
  stalled p = Some (1, d) -> pipe_step p = (p', None) ->
  (d = 2 \/ d = 1) /\ nonempty l1 = true /\ (d = 1 -> l2 = None) /\
  (flush3 p' l2 dead \/
   exists n1 n3 n4, lat p' = [l0; n1; None; n3; n4] /\ dead <> 3%nat /\ nonempty n1 = true /\
     nonempty n3 = nonempty l2 /\ stalled p' = (if d =? 1 then None else Some (1, 1))).
Proof.
  intros [Hl Sh Hz HPp HPs W Hexs Hd D1 L3 L2 L1 L0 HF Hrg Hms Hbc Hpcn Hout Hexc Hic Hfd] Hst Hps.
  destruct (shape_at p _ _ _ _ _ Sh Hl) as (K0 & K1 & K2 & K3 & K4 & KM). rewrite HPp in *.
  rewrite Hst in KM. unfold ModeInv in KM. destruct (saved p) as [svl|] eqn:Hsv; [|contradiction].
  destruct KM as [Hd12 [(_ & m & x1 & -> & -> & Hm & Him & Ham & _ & Hd1)|(Habs & _)]]; [|discriminate Habs].
  split; [exact Hd12|]. split; [reflexivity|]. split; [exact Hd1|].
  rewrite (pipe_step_stall1 p _ _ _ _ _ d Hl Hst) in Hps. unfold run_stall1, sv_at in Hps. rewrite Hz, Hsv in Hps.
  change (lat_at [Some m] 0) with (Some m) in Hps.
  destruct (wb_stage P Hsup s l3 (bumped (pst p)) HPs L3 W Hexs Hrg)
    as (s2 & HWB & Hf4 & Hr2 & Hm2 & Ho2 & Hb2 & Hp2 & He2 & Hpc2 & Him2 & Hi2 & W2 & HP2 & Hex2).
  rewrite HWB in Hps. clear HWB. unfold bumped in *. stf.
  assert (Hfd2 : fired l2 = nonempty l2) by (rewrite Hfd, Hst; reflexivity).
  destruct (mem_on l2 s2) as [[n3 s4] oe] eqn:HM.
  pose proof (mem_stage P Hsup _ _ _ _ _ _ _ HP2 L2 Hfd2
                ltac:(rewrite Hm2; exact Hms) HM) as (Hr4 & Ho4 & He4 & Hi4 & Hpc4 & Him4 & HMEM).
  destruct oe as [e|]; [nf Hps|].
  destruct HMEM as (Hne3 & Hm4 & Hs3 & Hb4 & Hp4 & Hrel3).
  set (n1 := id_on true (Some m) (Some x1) l2 s2) in *. set (n4 := option_map wb_slot l3) in *.
  assert (Hs4 : has_stall n4 = false) by (subst n4; destruct l3; reflexivity).
  assert (Hne1 : nonempty n1 = true) by (subst n1; rewrite id_on_some; reflexivity).
  assert (Hf1 : flush_of n1 = None) by apply id_on_flags.
  destruct (L0ok_flags _ _ K0) as [Hs0 Hf0].
  cbn [finish] in Hps. injection Hps as Hp'.
  pose proof (post_stalled p l0 n1 None n3 n4 s4 1 d _ Hst Hsv Hd12 (or_introl eq_refl)
                Hs0 Hs3 Hs4 (fun _ => eq_refl) Hf0 Hf1 Hf4) as HPOST. cbv zeta in HPOST. cbn [flush_of] in HPOST.
  subst p'.
  pose proof (mem_flush_dead dead _ _ _ K2 HP2 L2 Hfd2 Hrel3) as HDEAD.
  destruct (mem_ok_cases_e P Hsup dead _ _ _ K2 HP2 L2 Hfd2 Hrel3)
    as (O2 & [(Hf3 & Hd3 & L3') | [(a & Hf3 & Hn3 & _) | (a & x3 & Hn3 & Hf3 & _)]]).
  3:{ left. rewrite Hf3 in HPOST. destruct HPOST as (Hlat' & Hstl' & Hpc').
      exists n3, n4. split; [exact Hlat'|]. split; [rewrite Hn3; reflexivity|].
      split; [rewrite <- Hne3, Hn3; reflexivity|]. split; [|exact Hstl'].
      apply HDEAD. rewrite Hf3. discriminate. }
  2:{ left. rewrite Hf3 in HPOST. destruct HPOST as (Hlat' & Hstl' & Hpc').
      exists n3, n4. split; [exact Hlat'|]. split; [exact Hn3|].
      split; [rewrite <- Hne3; exact Hn3|]. split; [|exact Hstl'].
      apply HDEAD. rewrite Hf3. discriminate. }
  right. rewrite Hf3 in HPOST. destruct HPOST as (Hlat' & Hpc' & Hstl').
  exists n1, n3, n4. split; [exact Hlat'|]. split; [exact Hd3|]. split; [exact Hne1|].
  split; [exact Hne3|exact Hstl'].
Qed.

(** * A cycle stalled at EX (the drain of an ecall) *)
Lemma ctl_stall2 p s l0 l1 l2 l3 l4 dead d p' : InvAt P p s l0 l1 l2 l3 l4 dead ->
  stalled p = Some (2, d) -> pipe_step p = (p', None) ->
  nonempty l2 = true /\
  ((d = 2 /\ nonempty l3 = true /\ exists n1 n4, lat p' = [l0; n1; l2; None; n4] /\
      nonempty n1 = nonempty l1 /\ stalled p' = Some (2, 1)) \/
   (d = 1 /\ l3 = None /\ exists n1 n2, lat p' = [l0; n1; n2; None; None] /\
      nonempty n1 = nonempty l1 /\ nonempty n2 = true /\ fired n2 = true /\ stalled p' = None) \/
   (d = 1 /\ l3 = None /\ exit2 p' s)).
Proof.
  intros [Hl Sh Hz HPp HPs W Hexs Hd D1 L3 L2 L1 L0 HF Hrg Hms Hbc Hpcn Hout Hexc Hic Hfd] Hst Hps.
  destruct (shape_at p _ _ _ _ _ Sh Hl) as (K0 & K1 & K2 & K3 & K4 & KM). rewrite HPp in *.
  rewrite Hst in KM. unfold ModeInv in KM. destruct (saved p) as [svl|] eqn:Hsv; [|contradiction].
  destruct KM as [Hd12 [(Habs & _)|(_ & m0 & y1 & x2 & -> & Hsk0 & -> & Hsk1 & _ & _ & Hd2 & Hd1)]];
    [discriminate Habs|].
  split; [reflexivity|].
  destruct Hsk1 as (Hy1i & Hy1s & Hy1f & Hy1e & Hx2i & Hx2a & Hf1 & Hf2 & Hf3 & Hf4 & Hf5 & Hf6).
  rewrite (pipe_step_stall2 p _ _ _ _ _ d Hl Hst) in Hps. unfold run_stall2, sv_at in Hps. rewrite Hz, Hsv in Hps.
  change (lat_at [m0; Some y1] 0) with m0 in Hps. change (lat_at [m0; Some y1] 1) with (Some y1) in Hps.
  destruct (wb_stage P Hsup s l3 (bumped (pst p)) HPs L3 W Hexs Hrg)
    as (s2 & HWB & Hf4' & Hr2 & Hm2 & Ho2 & Hb2 & Hp2 & He2 & Hpc2 & Him2 & Hi2 & W2 & HP2 & Hex2).
  rewrite HWB in Hps. clear HWB. unfold bumped in *. stf.
  assert (Hfd2 : fired (Some x2) = false) by (rewrite Hfd, Hst; reflexivity).
  cbn [fired] in Hfd2. assert (Hx2s : sl_stall x2 = true) by (destruct (sl_stall x2); [reflexivity|discriminate Hfd2]).
  cbn [lv] in L2. destruct (L2 Logic.I) as (Wt & (Hxt & Hat & Hit) & HE2 & Hbar2 & Hpl2).
  unfold Eok in HE2. rewrite Hx2s, Hx2i in HE2. destruct HE2 as [_ HE2]. rewrite Hx2i in Hit.
  assert (Hdf : dfields y1 (dsl (adv l3 s) IEcall)).
  { rewrite HE2 in Hx2a, Hf1, Hf2, Hf3, Hf4, Hf5, Hf6.
    cbn [ex_slot sl_addr sl_ra1 sl_ra2 sl_rd1 sl_rd2 sl_imm sl_wreg] in Hx2a, Hf1, Hf2, Hf3, Hf4, Hf5, Hf6.
    unfold dfields. rewrite Hy1i. csplit; try reflexivity; symmetry; assumption. }
  assert (Hout2 : out s2 = out (adv l3 s)).
  { rewrite Ho2, Hout. cbn [fired]. rewrite Hx2s. reflexivity. }
  assert (Hbusy : ex_busy y1 (Some x2) l3 = nonempty l3).
  { unfold ex_busy. rewrite Hy1s. reflexivity. }
  set (n1 := id_on true m0 l1 (Some x2) s2) in *. set (n4 := option_map wb_slot l3) in *.
  assert (Hs4 : has_stall n4 = false) by (subst n4; destruct l3; reflexivity).
  assert (Hne1 : nonempty n1 = nonempty l1).
  { subst n1. rewrite nonempty_id_on. destruct m0, l1; cbn in Hsk0 |- *; tauto. }
  assert (Hfl1 : flush_of n1 = None) by apply id_on_flags.
  destruct (L0ok_flags _ _ K0) as [Hs0 Hf0].
  rewrite (ex_on_ecall y1 (Some x2) l3 s2 Hy1i) in Hps. rewrite Hbusy in Hps.
  destruct Hd12 as [-> | ->].
  { (* countdown 2 *)
    left. split; [reflexivity|].
    destruct l3 as [x3|]; [|exfalso; apply Hd2; reflexivity]. cbn [nonempty] in *.
    split; [reflexivity|].
    rewrite (ex_slot_ext _ _ _ _ _ _ _ Hdf), <- HE2 in Hps.
    cbn [finish] in Hps. injection Hps as Hp'. subst p'.
    assert (Hf2' : flush_of (Some x2) = None) by (rewrite HE2; reflexivity).
    pose proof (post_stalled p l0 n1 (Some x2) None n4 s2 2 2 _ Hst Hsv (or_introl eq_refl) (or_intror eq_refl)
                  Hs0 eq_refl Hs4 ltac:(intros H; discriminate H) Hf0 Hfl1 Hf4') as HPOST.
    cbv zeta in HPOST. cbn [flush_of] in HPOST. cbn [flush_of] in Hf2'. rewrite Hf2' in HPOST.
    destruct HPOST as (Hlat' & Hpc' & Hstl'). change (2 =? 1) with false in Hstl'. cbv iota in Hstl'.
    exists n1, n4. split; [exact Hlat'|]. split; [exact Hne1|exact Hstl']. }
  (* countdown 1: the ecall fires *)
  right. subst n4. pose proof (Hd1 eq_refl) as Hl3. subst l3. clear Hd1 Hd2. cbn [nonempty adv option_map] in *.
  pose proof (ecall_fire P s y1 (Some x2) None s2 Wt Hxt HPs Hit Hdf Hr2
                ltac:(congruence) Hout2 Hbusy) as HFIRE.
  rewrite (ex_on_ecall y1 (Some x2) None s2 Hy1i), Hbusy in HFIRE.
  destruct (process_ecall s2) as [[[txt|c]|e] sx] eqn:Hpe; [| |nf Hps].
  all: destruct HFIRE as (x2' & Hx2' & HE' & Hi' & Ha' & Hst' & G1 & G2 & G3 & G4 & G5 & G6 & G7 & G8 & Hout3 & Hok & Hcase);
    injection Hx2' as Hx2'; rewrite Hx2' in Hps; clear Hx2'.
  all: cbn [finish] in Hps; injection Hps as Hp'; subst p'.
  all: match goal with |- context [post ?pp [?a0; ?a1; ?a2; ?a3; ?a4] ?s3] =>
         pose proof (post_stalled pp a0 a1 a2 a3 a4 s3 2 1 _ Hst Hsv (or_intror eq_refl) (or_intror eq_refl)
                  Hs0 eq_refl eq_refl ltac:(intros H; discriminate H) Hf0 Hfl1 eq_refl) as HPOST;
         cbv zeta in HPOST; cbn [flush_of] in HPOST end.
  all: destruct Hcase as [(Hfl & Hpl) | (c' & Hfl & Hxn)]; rewrite Hfl in HPOST;
       destruct HPOST as (Hlat' & Hpc' & Hstl'); cbn in Hstl'.
  1,3: left; split; [reflexivity|]; split; [reflexivity|]; exists n1, (Some x2');
       split; [exact Hlat'|]; split; [exact Hne1|]; split; [reflexivity|];
       split; [cbn [fired]; rewrite Hst'; reflexivity|exact Hstl'].
  all: right; split; [reflexivity|]; split; [reflexivity|]; exists (Some x2'), None;
       split; [exact Hlat'|]; split; [reflexivity|]; split; [exact Hstl'|];
       split; [cbn [fired]; rewrite Hst'; reflexivity|rewrite Hxn; discriminate].
Qed.

End Step.
