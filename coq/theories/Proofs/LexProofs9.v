(* LexProofs9.v — Model/Lex.v: (b) at the level of [lex_line]; closed examples (non-vacuity) for (a)-(e). *)
From Coq Require Import String.
From Coq Require Import ZArith List Bool Lia ZifyBool.
From ArchSim Require Import Model.Base Model.Mem Model.Cache Model.Fmt Model.RV Model.Toy Model.Asm Model.Lex
  Proofs.LexProofs1 Proofs.LexProofs2 Proofs.LexProofs3 Proofs.LexProofs5 Proofs.LexProofs6
  Proofs.LexProofs7 Proofs.LexProofs8.
Import ListNotations.
Open Scope Z_scope.

Lemma alpha_no_hash m : alpha m = true -> no_hash m = true.
Proof.
  unfold alpha, no_hash. rewrite !forallb_forall. intros H x Hx. specialize (H x Hx).
  destruct (x =? 35) eqn:E; [|reflexivity]. apply Z.eqb_eq in E. subst. discriminate.
Qed.
Lemma alpha_no_tab m : alpha m = true -> no_tab m = true.
Proof.
  unfold alpha, no_tab. rewrite !forallb_forall. intros H x Hx. specialize (H x Hx).
  destruct (x =? 9) eqn:E; [|reflexivity]. apply Z.eqb_eq in E. subst. discriminate.
Qed.
Lemma alpha_not_space c : is_alpha c = true -> py_isspace c = false.
Proof. unfold is_alpha, is_upper, is_lower, py_isspace. lia. Qed.
Lemma alpha_starts m x : alpha m = true -> m <> [] -> starts_nonspace (m ++ x) = true.
Proof.
  intros H Hn. destruct m as [|c t]; [congruence|]. cbn [alpha forallb] in H. apply andb_true_iff in H as [Hc _].
  cbn [app starts_nonspace]. rewrite (alpha_not_space c Hc). reflexivity.
Qed.
Lemma alpha_ends m : alpha m = true -> m <> [] -> ends_nonspace m = true.
Proof.
  intros H Hn. unfold ends_nonspace.
  assert (H' : alpha (rev m) = true).
  { unfold alpha in *. rewrite forallb_forall in *. intros x Hx. apply H. rewrite in_rev. exact Hx. }
  assert (Hn' : rev m <> []) by (intros E; apply Hn; rewrite <- (rev_involutive m), E; reflexivity).
  rewrite <- (app_nil_r (rev m)). apply alpha_starts; assumption.
Qed.

(* the rest of a core line after the mnemonic: nothing, or text without '#' and tabs that ends in a non-blank *)
Definition rest_ok (post : str) : bool :=
  no_hash post && no_tab post && (match post with [] => true | _ => ends_nonspace post end).

Lemma core_line m post :
  alpha m = true -> m <> [] -> rest_ok post = true -> lex_line (m ++ post) = lex_core (m ++ post).
Proof.
  intros Ha Hn Hr. unfold rest_ok in Hr. apply andb_true_iff in Hr as [Hr H3]. apply andb_true_iff in Hr as [H1 H2].
  apply lex_line_core.
  - apply alpha_starts; assumption.
  - destruct post as [|c t]; [rewrite app_nil_r; apply alpha_ends; assumption|apply ends_app, H3].
  - rewrite no_hash_app, (alpha_no_hash m Ha), H1. reflexivity.
  - unfold no_tab. rewrite forallb_app. fold (no_tab m). fold (no_tab post). rewrite (alpha_no_tab m Ha), H2. reflexivity.
Qed.

(** (b) for source lines: indentation [ind], mnemonic, operands [post], trailing blanks, comment *)
Theorem lex_line_case ind mn mn' post trail cmt :
  case_hyp mn mn' post -> rest_ok post = true ->
  all_space ind = true -> all_space trail = true -> is_comment cmt = true ->
  lex_line (ind ++ (mn ++ post) ++ trail ++ cmt) = lex_line (ind ++ (mn' ++ post) ++ trail ++ cmt).
Proof.
  intros CH Hr Hi Ht Hc. destruct (mn_ne mn mn' post CH) as [N N']. pose proof CH as [Ha Ha' _ _ _ _].
  assert (Hh : no_hash post = true).
  { unfold rest_ok in Hr. apply andb_true_iff in Hr as [Hr _]. apply andb_true_iff in Hr. tauto. }
  rewrite !lex_outer_layout; try assumption;
    try (rewrite no_hash_app, Hh; rewrite alpha_no_hash by assumption; reflexivity).
  rewrite (core_line mn post Ha N Hr), (core_line mn' post Ha' N' Hr). apply lex_core_case_plain, CH.
Qed.

Lemma lab1_labn c : is_lab1 c = true -> is_labn c = true.
Proof. unfold is_lab1, is_labn, is_alpha, is_upper, is_lower, is_digit. lia. Qed.
Lemma no_tab_app a c : no_tab (a ++ c) = no_tab a && no_tab c.
Proof. apply forallb_app. Qed.
Lemma labn_no_hash_tab c : is_labn c = true -> (c =? 35) = false /\ (c =? 9) = false /\ py_isspace c = false.
Proof. unfold is_labn, is_alpha, is_upper, is_lower, is_digit, py_isspace. lia. Qed.
Lemma ws_no_hash c : is_ws c = true -> (c =? 35) = false.
Proof. unfold is_ws. lia. Qed.

(** (b) for source lines with an in-line label:  ind  name w1 : w2 MNEMONIC post  trail  # comment *)
Theorem lex_line_case_label ind c0 t0 w1 w2 mn mn' post trail cmt :
  case_hyp mn mn' post -> rest_ok post = true ->
  is_lab1 c0 = true -> forallb is_labn t0 = true ->
  blanks w1 = true -> blanks w2 = true -> no_tab (w1 ++ w2) = true ->
  all_space ind = true -> all_space trail = true -> is_comment cmt = true ->
  lex_line (ind ++ lline post c0 t0 w1 w2 mn ++ trail ++ cmt) =
  lex_line (ind ++ lline post c0 t0 w1 w2 mn' ++ trail ++ cmt).
Proof.
  intros CH Hr Hc0 Ht0 Hw1 Hw2 Hnt Hi Ht Hc. destruct (mn_ne mn mn' post CH) as [N N']. pose proof CH as [Ha Ha' _ _ _ _].
  unfold rest_ok in Hr. apply andb_true_iff in Hr as [Hr H3]. apply andb_true_iff in Hr as [H1 H2].
  rewrite no_tab_app in Hnt. apply andb_true_iff in Hnt as [Hn1 Hn2].
  assert (Hlab1 : is_labn c0 = true) by (apply lab1_labn, Hc0).
  assert (LH : no_hash (c0 :: t0) = true /\ no_tab (c0 :: t0) = true).
  { unfold no_hash, no_tab. rewrite !forallb_forall. split; intros x [<-|Hx].
    - destruct (labn_no_hash_tab _ Hlab1) as (E & _). rewrite E. reflexivity.
    - rewrite forallb_forall in Ht0. destruct (labn_no_hash_tab _ (Ht0 x Hx)) as (E & _). rewrite E. reflexivity.
    - destruct (labn_no_hash_tab _ Hlab1) as (_ & E & _). rewrite E. reflexivity.
    - rewrite forallb_forall in Ht0. destruct (labn_no_hash_tab _ (Ht0 x Hx)) as (_ & E & _). rewrite E. reflexivity. }
  destruct LH as [LH LT].
  assert (Core : forall m, alpha m = true -> m <> [] ->
            no_hash (lline post c0 t0 w1 w2 m) = true /\ lex_line (lline post c0 t0 w1 w2 m) = lex_core (lline post c0 t0 w1 w2 m)).
  { intros m Hm Hn.
    assert (NH : no_hash (lline post c0 t0 w1 w2 m) = true).
    { unfold lline. rewrite no_hash_app, LH, no_hash_app, (blanks_no_hash _ Hw1). cbn [andb].
      change (58 :: w2 ++ m ++ post) with ([58] ++ w2 ++ m ++ post).
      rewrite !no_hash_app, (blanks_no_hash _ Hw2), (alpha_no_hash m Hm), H1. reflexivity. }
    split; [exact NH|]. apply lex_line_core; [| |exact NH|].
    - unfold lline. cbn [app starts_nonspace]. destruct (labn_no_hash_tab _ Hlab1) as (_ & _ & E). rewrite E. reflexivity.
    - unfold lline. apply ends_app, ends_app. change (58 :: w2 ++ m ++ post) with ([58] ++ w2 ++ m ++ post).
      apply ends_app, ends_app. destruct post as [|c t]; [rewrite app_nil_r; apply alpha_ends; assumption|apply ends_app, H3].
    - unfold lline. rewrite no_tab_app, LT, no_tab_app, Hn1. cbn [andb].
      change (58 :: w2 ++ m ++ post) with ([58] ++ w2 ++ m ++ post).
      rewrite !no_tab_app, Hn2, (alpha_no_tab m Hm), H2. reflexivity. }
  destruct (Core mn Ha N) as [NH1 E1]. destruct (Core mn' Ha' N') as [NH2 E2].
  rewrite !lex_outer_layout; try assumption. rewrite E1, E2. apply lex_core_case_label; assumption.
Qed.

(** * closed examples *)
Definition S (s : string) : str := codes s.
Definition tab : str := [9].

(* (a) every blank and tab of the decorated line is at a position the theorems cover *)
Example ex_layout_value :
  lex_line (S "   loop :" ++ tab ++ S "ADDI  x 5 ,sp , -0x10  # note") =
  LexOk (NInstr (Some (S "loop")) (NIns (tok_r1_r2_imm 18 (RX (S "5")) (RAbi (S "sp")) (S "-0x10")))) /\
  lex_line (S "loop:ADDI x5,sp,-0x10") = lex_line (S "   loop :" ++ tab ++ S "ADDI  x 5 ,sp , -0x10  # note").
Proof. vm_compute. split; reflexivity. Qed.
(* an instance of lex_layout with all its hypotheses, and a position where blanks DO matter *)
Example ex_layout_instance :
  lex_line (S "  " ++ (S "lw a0," ++ (tab ++ S " ") ++ S "-4(sp)") ++ S " " ++ S "# c") = lex_line (S "lw a0," ++ S "-4(sp)").
Proof. apply lex_layout; vm_compute; auto. Qed.
Example ex_layout_limits :
  lex_line (S "la a0, buf[2]") <> LexSyntax /\ lex_line (S "la a0, buf [2]") = LexSyntax /\
  lex_line (S "li a0, -5") <> LexSyntax /\ lex_line (S "li a0, - 5") = LexSyntax.
Proof. vm_compute. repeat split; discriminate. Qed.

(* (b) *)
Example ex_case_value :
  lex_line (S "SlLi a0, a1, 3") = lex_line (S "slli a0, a1, 3") /\
  lex_line (S "slli a0, a1, 3") = LexOk (NInstr None (NIns (tok_r1_r2_imm 24 (RAbi (S "a0")) (RAbi (S "a1")) (S "3")))).
Proof. vm_compute. split; reflexivity. Qed.
Example ex_case_instance :
  lex_line (S " " ++ (S "JaLr" ++ S " ra, 0(t0)") ++ S "  " ++ S "#x") = lex_line (S " " ++ (S "jalr" ++ S " ra, 0(t0)") ++ S "  " ++ S "#x").
Proof.
  apply lex_line_case; try reflexivity. constructor; try reflexivity. vm_compute. tauto.
Qed.
Example ex_case_label_instance :
  lex_line (S "" ++ lline (S " x1, 8") 102 (S "n") (S " ") (S "  ") (S "JAL") ++ S "" ++ S "") =
  lex_line (S "" ++ lline (S " x1, 8") 102 (S "n") (S " ") (S "  ") (S "jal") ++ S "" ++ S "").
Proof.
  apply lex_line_case_label; try reflexivity. constructor; try reflexivity. vm_compute. tauto.
Qed.
(* the hypothesis "not followed by ':'" is needed: there the word is a label, and labels are case-sensitive *)
Example ex_case_label_word : lex_line (S "add : nop") <> lex_line (S "ADD : nop").
Proof. vm_compute. discriminate. Qed.

(* (c) *)
Example ex_registers :
  p_reg (S " fp, 1") = Some (RAbi (S "fp"), S ", 1") /\ p_reg (S " s0, 1") = Some (RAbi (S "s0"), S ", 1") /\
  p_reg (S " x8, 1") = Some (RX (S "8"), S ", 1") /\
  reg_num (RAbi (S "fp")) = Some 8 /\ reg_num (RAbi (S "s0")) = Some 8 /\ reg_num (RX (S "8")) = Some 8 /\
  p_reg (S "s10)") = Some (RAbi (S "s10"), S ")") /\ p_reg (S "x32") = Some (RX (S "3"), S "2").
Proof. vm_compute. repeat split; reflexivity. Qed.

(* (d) *)
Example ex_numbers :
  p_imm (S " -31, x") = Some (S "-31", S ", x") /\ p_imm (S " -0x1F, x") = Some (S "-0x1F", S ", x") /\
  p_imm (S " -0b11111, x") = Some (S "-0b11111", S ", x") /\
  py_int0 (S "-31") = Some (-31) /\ py_int0 (S "-0x1F") = Some (-31) /\ py_int0 (S "-0b11111") = Some (-31) /\
  py_int0 (S "-0x1f") = Some (-31) /\ py_int0 (S "007") = None.
Proof. vm_compute. repeat split; reflexivity. Qed.
Example ex_numbers_instance : exists t1 t2 t3,
  p_imm (S " " ++ S "-" ++ (48 :: 120 :: S "1F") ++ S "(sp)") = Some (t1, S "(sp)") /\
  p_imm (S " " ++ S "-" ++ (48 :: 98 :: S "11111") ++ S "(sp)") = Some (t2, S "(sp)") /\
  p_imm (S " " ++ S "-" ++ S "31" ++ S "(sp)") = Some (t3, S "(sp)") /\
  py_int0 t1 = Some (sgn (S "-") 31) /\ py_int0 t2 = Some (sgn (S "-") 31) /\ py_int0 t3 = Some (sgn (S "-") 31).
Proof. apply number_spellings; try reflexivity; discriminate. Qed.

(* (e) and the text pipeline: line numbers are those of the source, names are interned in order *)
Example ex_text :
  lex_text [S "# program"; S ""; S ".data"; S "buf: .word 1, 0x2"; S "   "; S ".text"; S "main: la a0, buf # c";
            tab ++ S "# only a comment"; S "  beq a0, zero, main+0x4"] =
  LTOk [(3, RDirective 1); (4, RVarDecl 1 2 [S "1"; S "0x2"]); (6, RDirective 0);
        (7, RInstr (Some 2) (BIns {| k_mn := 55; k_rd := None; k_rs1 := None; k_rs2 := None;
              k_reg1 := Some (RAbi (S "a0")); k_reg2 := None; k_rs := None; k_imm := None; k_csr := None;
              k_uimm := None; k_offset := None; k_label := None; k_var := Some (1, None) |}));
        (9, RInstr None (BIns {| k_mn := 37; k_rd := None; k_rs1 := None; k_rs2 := None;
              k_reg1 := Some (RAbi (S "a0")); k_reg2 := Some (RAbi (S "zero")); k_rs := None; k_imm := None;
              k_csr := None; k_uimm := None; k_offset := Some (S "0x4"); k_label := Some 2; k_var := None |}))].
Proof. vm_compute. reflexivity. Qed.
Example ex_text_error : lex_text [S "nop"; S "# c"; S "add x1, x2"; S "add x1"] = LTSyntax 3.
Proof. vm_compute. reflexivity. Qed.
Example ex_text_small :
  lex_text [S "nop"; S "# c"; S "add x1, x2"; S "add x1"] = LTSyntax 3 /\
  lex_text [S "# p"; S ""; S "  nop # c"] = LTOk [(3, RInstr None (BStr 2))].
Proof. split; vm_compute; reflexivity. Qed.
