(* LexRepr4.v — the composed round trip: print a listing (Asm.instr_repr), lex it with the model's tokenizer
   (Lex.lex_text), assemble it (Asm.assemble): the loaded program is the listing itself. *)
From Coq Require Import String.
From Coq Require Import ZArith List Bool Lia ZifyBool.
From ArchSim Require Import Model.Base Model.Mem Model.Cache Model.Fmt Model.RV Model.Toy Model.Asm Model.Lex
  Proofs.C14Proofs Proofs.LexRepr2 Proofs.LexRepr3.
Import ListNotations.
Open Scope Z_scope.

Lemma repr_nameless i : i <> IFence -> nameless (repr_tokens i).
Proof. destruct i; intros H; cbn; auto; congruence. Qed.
Lemma printable_not_fence i : printable i -> i <> IFence.
Proof. intros H ->. exact H. Qed.

(* lines that produce no entry in front *)
Lemma lex_lines_skips pre : Forall (fun l => lex_line l = LexSkip) pre -> forall ln names rest,
  lex_lines ln names (pre ++ rest) = lex_lines (ln + Z.of_nat (List.length pre)) names rest.
Proof.
  induction 1 as [|l pre Hl _ IH]; intros ln names rest.
  - cbn [app List.length]. f_equal. lia.
  - cbn [app lex_lines]. rewrite Hl, IH. f_equal. cbn [List.length]. lia.
Qed.

Definition token_lines (ln : Z) (l : list instr) : list (Z * rline) :=
  combine (zrange_from ln (List.length l)) (map (fun i => RInstr None (repr_tokens i)) l).

Lemma lex_lines_printed l : Forall printable l -> forall ln names,
  lex_lines ln names (map instr_repr l) = LTOk (token_lines ln l).
Proof.
  induction 1 as [|i l Hi _ IH]; intros ln names; [reflexivity|].
  cbn [map lex_lines]. rewrite (lex_of_printed_lem i Hi).
  rewrite (intern_nameless names _ (repr_nameless i (printable_not_fence i Hi))). rewrite IH. reflexivity.
Qed.

(** the assembler on the token lines of a printed listing *)
Lemma segment_loop_plain (t : list (Z * rline)) : Forall (fun x => rdir_of (snd x) = None) t ->
  forall de te data text, segment_loop rline rdir_of t de te data text = POk (data, text).
Proof.
  induction 1 as [|[ln x] t Hx _ IH]; intros de te data text; [reflexivity|].
  cbn [segment_loop]. cbn [snd] in Hx. rewrite Hx. apply IH.
Qed.
Lemma token_lines_plain ln l : Forall (fun x => rdir_of (snd x) = None) (token_lines ln l).
Proof.
  unfold token_lines. revert ln. induction l as [|i l IH]; intros ln; [constructor|].
  cbn [List.length zrange_from map combine]. constructor; [reflexivity|apply IH].
Qed.
Lemma segment_printed ln l : segment rdir_of (token_lines ln l) = POk ([], token_lines ln l).
Proof.
  pose proof (token_lines_plain ln l) as P. destruct (token_lines ln l) as [|[k x] t] eqn:E; [reflexivity|].
  cbn [segment]. inversion P as [|? ? Hx Ht]; subst. cbn [snd] in Hx. rewrite Hx. apply segment_loop_plain, Ht.
Qed.
Lemma split_inline_printed ln l :
  split_inline (token_lines ln l) = (listing_text (zrange_from ln (List.length l)) l, []).
Proof.
  unfold token_lines, listing_text. revert ln. induction l as [|i l IH]; intros ln; [reflexivity|].
  cbn [List.length zrange_from map combine split_inline]. rewrite IH. reflexivity.
Qed.
Lemma expand_one_printed vars ln i : i <> IFence -> expand_one vars ln (repr_tokens i) = POk [repr_tokens i].
Proof. destruct i as [o| o| o| o| | | | o| o| | | | | o| o]; intros H; try destruct o; try reflexivity; congruence. Qed.
Lemma expand_all_printed vars lns l : Forall printable l ->
  expand_all vars (listing_text lns l) = POk (listing_text lns l).
Proof.
  unfold listing_text. intros H. revert lns. induction H as [|i l Hi _ IH]; intros lns.
  - destruct lns; reflexivity.
  - destruct lns as [|k lns]; [reflexivity|]. cbn [map combine expand_all].
    rewrite (expand_one_printed vars k i (printable_not_fence i Hi)), IH. reflexivity.
Qed.
Lemma rv_labels_printed lns l : forall addr last,
  rv_labels (listing_text lns l) [] addr [] last = POk [].
Proof.
  unfold listing_text. revert lns. induction l as [|i l IH]; intros lns addr last.
  - destruct lns; reflexivity.
  - destruct lns as [|k lns]; [reflexivity|]. cbn [map combine rv_labels mget_opt]. apply IH.
Qed.
Lemma zrange_length ln n : List.length (zrange_from ln n) = n.
Proof. revert ln. induction n as [|n IH]; intros ln; [reflexivity|]. cbn [zrange_from List.length]. rewrite IH. reflexivity. Qed.
Lemma encodable_all_printable l : forall a, encodable_from a l -> Forall printable l.
Proof.
  induction l as [|i l IH]; intros a H; [constructor|]. destruct H as [Hi Hl].
  constructor; [eapply encodable_printable, Hi|eapply IH, Hl].
Qed.

Lemma assemble_printed ln l m :
  encodable_from 0 l -> 4 * Z.of_nat (List.length l) <= imem_limit ->
  assemble (token_lines ln l) m = POk (m, {| i_instrs := l; i_labels := []; i_vars := [] |}).
Proof.
  intros He Hl. pose proof (encodable_all_printable l 0 He) as Hp. unfold assemble.
  rewrite segment_printed. cbn [pbind]. rewrite split_inline_printed. cbn [write_data pbind].
  rewrite (expand_all_printed [] _ l Hp). cbn [pbind]. rewrite rv_labels_printed. cbn [pbind].
  rewrite (listing_fixpoint_gen l 0 _ [] He (zrange_length ln (List.length l))). cbn [pbind].
  destruct (4 * Z.of_nat (List.length l) >? imem_limit) eqn:E; [lia|reflexivity].
Qed.

(** C14 with the tokenizer in the loop: printing a listing whose instructions are encodable at their addresses,
    possibly after comment/blank lines, and loading that text gives back the listing (instruction k at 4k) *)
Theorem print_lex_assemble_lem s pre l :
  Forall (fun x => lex_line x = LexSkip) pre ->
  encodable_from 0 l -> 4 * Z.of_nat (List.length l) <= imem_limit ->
  exists s', rv_load_text s (pre ++ map instr_repr l) =
               (s', None, Some {| i_instrs := l; i_labels := []; i_vars := [] |}) /\
             prog (im s') = l.
Proof.
  intros Hpre He Hl. unfold rv_load_text, lex_text.
  rewrite (lex_lines_skips pre Hpre), (lex_lines_printed l (encodable_all_printable l 0 He)).
  unfold rv_load. rewrite (assemble_printed _ l _ He Hl). eexists. split; reflexivity.
Qed.

(* one line *)
Corollary print_lex_assemble_one s i : encodable_at 0 i ->
  exists s', rv_load_text s [instr_repr i] = (s', None, Some {| i_instrs := [i]; i_labels := []; i_vars := [] |}) /\
             prog (im s') = [i].
Proof.
  intros H. apply (print_lex_assemble_lem s [] [i]); [constructor|split; [exact H|exact Logic.I]|].
  unfold imem_limit. cbn. lia.
Qed.

(* with the lines of the printed listing spelled out: the token line of instruction k is that of its text *)
Lemma lex_text_printed pre l :
  Forall (fun x => lex_line x = LexSkip) pre -> Forall printable l ->
  lex_text (pre ++ map instr_repr l) = LTOk (token_lines (1 + Z.of_nat (List.length pre)) l).
Proof. intros Hp Hl. unfold lex_text. rewrite (lex_lines_skips pre Hp). apply lex_lines_printed, Hl. Qed.

(** * closed examples *)
Definition S (x : string) : str := codes x.
Definition st0 : st := init_st [] (MFlat []) None.
Definition listing : list instr :=
  [ II ADDI 5 0 (-100); IStore SW 6 5 (-4); ILoad LBU 7 6 2047; IBranch BNE 7 5 (-8); IR MULHSU 10 7 5;
    IJal 1 (-20) 0; ILui 3 (-1); ICsr CSRRW 1 768 2; ICsri CSRRCI 1 3072 31; IJalr 0 1 (-2048); IAuipc 31 524287;
    ISh SRAI 9 9 31; IEcall; IEbreak ].

Example ex_printed_lines :
  map instr_repr listing =
  map S [ "addi x5, x0, -100"; "sw x5, -4(x6)"; "lbu x7, 2047(x6)"; "bne x7, x5, -8"; "mulhsu x10, x7, x5";
          "jal x1, 0"; "lui x3, -1"; "csrrw x1, 0x300, x2"; "csrrci x1, 0xc00, 31"; "jalr x0, x1, -2048";
          "auipc x31, 524287"; "srai x9, x9, 31"; "ecall"; "ebreak" ]%string.
Proof. vm_compute. reflexivity. Qed.

(* the interesting spellings: negative decimal, imm(reg) with the operands in printing order, hexadecimal csr,
   absolute jal target *)
Example ex_lex_printed :
  lex_line (S "sw x5, -4(x6)") =
    LexOk (NInstr None (NIns (tok_r1_r2_imm 36 (RX (S "5")) (RX (S "6")) (S "-4")))) /\
  lex_line (S "csrrci x1, 0xc00, 31") =
    LexOk (NInstr None (NIns {| n_mn := 53; n_rd := Some (RX (S "1")); n_rs1 := None; n_rs2 := None; n_reg1 := None;
       n_reg2 := None; n_rs := None; n_imm := None; n_csr := Some (S "0xc00"); n_uimm := Some (S "31");
       n_offset := None; n_label := None; n_var := None |})) /\
  lex_line (S "jal x1, 0") = LexOk (NInstr None (NIns (tok_rd_imm 45 (RX (S "1")) (S "0")))) /\
  lex_line (instr_repr (IJal 1 (-20) 0)) = LexOk (NInstr None (nbody_of (repr_tokens (IJal 1 (-20) 0)))) /\
  lex_line (S "fence") = LexSyntax.
Proof. vm_compute. repeat split; reflexivity. Qed.

Example ex_round_trip :
  encodable_from 0 listing /\
  (let '(s', e, img) := rv_load_text st0 (S "# listing" :: S "" :: map instr_repr listing) in
   (e, prog (im s'), img)) = (None, listing, Some {| i_instrs := listing; i_labels := []; i_vars := [] |}).
Proof.
  split; [|vm_compute; reflexivity].
  unfold listing, encodable_from, encodable_at, enc_reg. repeat split; try reflexivity; try discriminate.
Qed.
(* the address matters for jal: the same text at another address is another jump *)
Example ex_round_trip_address :
  (let '(s', e, img) := rv_load_text st0 [S "nop"; instr_repr (IJal 1 (-20) 0)] in prog (im s')) =
  [II ADDI 0 0 0; IJal 1 (-4) 0].
Proof. vm_compute. reflexivity. Qed.
