(* FlagOffControl.v — property C08, phase B, part 7: the invariant of FlagOffInv.v is kept by
   every step of the flag-off pipeline on programs WITHOUT ecalls: straight-line instructions
   plus taken / not-taken branches, jal and jalr, arbitrary register dependencies.  New relative
   to FlagOffStraight.v: the flush raised by MEM (latch 3) clears the wrong-path slots in latches
   0..2 and redirects the fetch; in the reference machine the three cleared slots are three
   bubbles behind the redirecting instruction. *)
From Coq Require Import Lia ZifyBool Wf_nat.
From ArchSim Require Import Model.Base Model.Mem Model.Cache Model.Fmt Model.RV Model.Single
  Model.RVSplit Model.Pipe Proofs.WordLemmas Proofs.C01Step Proofs.SplitExec Proofs.C02Split
  Proofs.PipeLaws Proofs.PipeShape Proofs.PipeInv Proofs.PipeInvBase Proofs.PipeInvStages
  Proofs.PipeInvStraight Proofs.PipeInvControl Proofs.FlagOffDwb Proofs.FlagOffInv Proofs.FlagOffStraight.
Open Scope Z_scope.

Local Arguments Z.mul : simpl never.
Local Arguments Z.add : simpl never.
Local Arguments Z.sub : simpl never.
Local Arguments Z.of_nat : simpl never.

Section Control.
Variable P : list instr.
Hypothesis HC : Forall (fun i => noecall i = true) P.

Let Hsup : Forall (fun i => supported i = true) P := Hsupc P HC.

Lemma advL_out_c L l : wfL L -> prog (im (lt L)) = P ->
  match l with Some x => onp P (uview L) x | None => True end -> out (lt (advL l L)) = out (lt L).
Proof.
  intros WL HP Hl. rewrite advL_out. change (out (lt L)) with (out (uview L)).
  apply (adv_out_c P HC); [apply wfL_uview; exact WL|exact HP|exact Hl].
Qed.

Lemma wfL_advL L l : wfL L -> prog (im (lt L)) = P -> exitc (lt L) = None ->
  match l with Some x => onp P (uview L) x | None => True end ->
  wfL (advL l L) /\ prog (im (lt (advL l L))) = P.
Proof.
  intros WL HP Hex Hl. destruct l as [x|]; [|split; [apply wfL_bub; exact WL|exact HP]].
  destruct Hl as (_ & _ & Hix). change (pc (uview L)) with (pc (lt L)) in Hix.
  destruct (wfL_lnxt L (sl_instr x) WL Hex ltac:(rewrite HP; exact Hix)) as [A B].
  rewrite advL_some. split; [exact A|congruence].
Qed.

(* what a step does to the latches: either everything moves up one latch, or MEM redirects and
   latches 0..2 are cleared *)
Definition stepinfo (p p' : pstate) (l0 l1 l2 l3 : latch) : Prop :=
  stalled p' = None /\ exists n0 n1 n2 n3 n4, lat p' = [n0; n1; n2; n3; n4] /\
    ((flush_of n3 = None /\
      nonempty n3 = nonempty l2 /\ nonempty n2 = nonempty l1 /\ nonempty n1 = nonempty l0 /\
      nonempty n0 = has_instr (im (pst p)) (pc (pst p)) /\
      (nonempty n0 = false -> has_instr (im (pst p')) (pc (pst p')) = false)) \/
     (flush_of n3 <> None /\ n0 = None /\ n1 = None /\ n2 = None /\ nonempty l2 = true)).

Definition cstep_goal (p : pstate) (L : lag) (l0 l1 l2 l3 : latch) : Prop :=
  match pipe_step p with
  | (p', None) => DInv P p' (advL l3 L) /\ lat_at (lat p') 4 = option_map wb_slot l3 /\
                  (l3 = None -> mu p' < mu p) /\ stepinfo p p' l0 l1 l2 l3
  | (p', Some f) => exists Lm, lstep (advL l3 L) = (Lm, Some f) /\
                  single_done (lt (advL l3 L)) = false /\ nonempty l2 = true /\
                  regs (pst p') = regs (lt Lm) /\ ms (pst p') = ms (lt Lm) /\ out (pst p') = out (lt Lm)
  end.

Lemma cstep_normal p L l0 l1 l2 l3 l4 dead : DInvAt P p L l0 l1 l2 l3 l4 dead -> stalled p = None ->
  pipe_done p = false -> cstep_goal p L l0 l1 l2 l3.
Proof.
  intros [Hl Sh Hz HPp HPs WL Hexs Hd D1 L3 L2 L1 L0 HF Hrg Hms Hbc Hpcn Hout Hexc Hic Hfd] Hst Hnd.
  pose proof (shape_step no_icache p no_icache_faithful Sh) as Sh'.
  assert (Hsv : saved p = None) by (apply (shape_saved_iff no_icache p Sh); exact Hst).
  unfold cstep_goal.
  rewrite (pipe_step_normal p _ _ _ _ _ Hl Hst) in *. unfold run_normal in *. rewrite Hz in *.
  destruct (if_stage P (bumped (pst p)) (sh_im _ _ Sh) HPp)
    as (n0 & s1 & HIF & Hr1 & Hm1 & Ho1 & He1 & Hi1 & Hb1 & Hp1 & HP1 & Hnc1 & Hs0 & Hf0 & Hn0).
  rewrite HIF in *.
  destruct (wb_stageL P Hsup L l3 s1 HPs L3 WL Hexs ltac:(rewrite Hr1; exact Hrg))
    as (s2 & HWB & Hf4 & Hr2 & Hm2 & Ho2 & Hb2 & Hp2 & He2 & Hpc2 & Him2 & Hi2 & WL2 & HP2 & Hex2).
  rewrite HWB in *.
  set (L' := advL l3 L) in *.
  destruct (shape_at p _ _ _ _ _ Sh Hl) as (K0 & K1 & K2 & K3 & K4 & KM). rewrite HPp in *.
  destruct (ex_latch_c P HC l1 l2 l3 s2 D1 K1) as (n2 & HEX & Hne2 & Hs2 & Hf2 & Hfd2 & Hrel2).
  rewrite HEX in *.
  destruct (mem_on l2 s2) as [[n3 s4] oe] eqn:HM.
  assert (HP2u : prog (im (uview L')) = P) by exact HP2.
  pose proof (mem_stage P Hsup _ _ _ _ _ _ _ HP2u L2 (fired_c P HC l2 K2)
                ltac:(rewrite Hm2, Hm1; exact Hms) HM) as (Hr4 & Ho4 & He4 & Hi4 & Hpc4 & Him4 & HMEM).
  destruct oe as [e|].
  - destruct HMEM as (x2 & tm & -> & Hstep & Hm4 & Hrtm).
    cbn [finish fst snd faulted pst fault_at fault_of lat_at nthZ nth Z.to_nat].
    cbn [lv] in L2. destruct (L2 Logic.I) as (_ & (Hx & Ha2 & Hi2') & _).
    eexists. split.
    { unfold lstep, vstep. fold (uview L'). rewrite Hstep. cbn [fst snd]. rewrite Ha2. reflexivity. }
    split; [apply (not_done (uview L') (sl_instr x2)); [exact Hx|rewrite HP2u; exact Hi2']|].
    split; [reflexivity|].
    cbn [lt regs ms out with_regs].
    split; [rewrite Hr4, Hr2; reflexivity|]. split; [exact Hm4|].
    rewrite Ho4, Ho2, Ho1. change (out (bumped (pst p))) with (out (pst p)). rewrite Hout.
    rewrite (fired_c P HC _ K2). cbn [nonempty]. rewrite advL_out. cbn [adv nonempty].
    unfold nxt. rewrite Hstep. reflexivity.
  - destruct HMEM as (Hne3 & Hm4 & Hs3 & Hb4 & Hp4 & Hrel3).
    set (n1 := id_on false l0 l1 l2 s2) in *.
    set (n4 := option_map wb_slot l3) in *.
    assert (Hs4 : has_stall n4 = false) by (subst n4; destruct l3; reflexivity).
    assert (Hs1 : has_stall n1 = false) by apply nohaz_id_no_stall.
    assert (Hns : new_stall [n0; n1; n2; n3; n4] None = None).
    { rewrite new_stall_5 by assumption. rewrite Hs2, Hs1. reflexivity. }
    assert (Ho_l2 : out (lt (advL l2 L')) = out (lt L')).
    { apply advL_out_c; try assumption. destruct l2; [apply (L2 Logic.I)|exact Logic.I]. }
    assert (Hlhs : out s4 = out (lt L')).
    { rewrite Ho4, Ho2, Ho1. change (out (bumped (pst p))) with (out (pst p)). rewrite Hout.
      destruct (fired l2); [exact Ho_l2|reflexivity]. }
    destruct (mem_ok_cases P HC dead _ _ _ K2 HP2u L2 Hrel3)
      as (L3' & O2 & [[Hf3 Hd3] | (a & Hf3 & Hn3 & Hpca & Wn & HPn & Hexn)]).
    2:{ (* flush from MEM: the barrier redirects *)
      cbn [finish]. cbn [finish fst] in Sh'.
      match goal with |- context [post p ?nx s4] =>
      assert (Hpost : post p nx s4 =
                {| pst := with_pc (with_flushes s4 (flushes s4 + 1)) a; lat := clear_prefix nx 3%nat;
                   stalled := None; saved := None; hazards := false |}) end.
      { assert (Hff : first_flush [n0; n1; n2; n3; n4] = Some (3, a)).
        { rewrite first_flush_5 by (assumption || apply id_on_flags). rewrite Hf4, Hf3. reflexivity. }
        unfold post. rewrite Hst, Hsv, Hz.
        rewrite (stall_part_idle _ _ _ Hns), (flush_part_some _ _ _ _ _ _ _ Hff). reflexivity. }
      rewrite Hpost in *. cbn [clear_prefix] in *.
      assert (Hl2ne : nonempty l2 = true) by congruence.
      assert (HadvL3 : advL n3 L' = lnxt L') by (unfold advL; rewrite Hn3; reflexivity).
      assert (HadvL2 : advL l2 L' = lnxt L') by (unfold advL; rewrite Hl2ne; reflexivity).
      assert (Hadv2 : forall t, adv l2 t = nxt t) by (intros; unfold adv; rewrite Hl2ne; reflexivity).
      rewrite Hadv2 in Hm4, Hb4, Hp4.
      assert (WLn : wfL (lnxt L') /\ prog (im (lt (lnxt L'))) = P).
      { rewrite <- HadvL2. apply wfL_advL; try assumption. destruct l2; [apply (L2 Logic.I)|exact Logic.I]. }
      destruct WLn as [WLn HPLn].
      split; [|split; [reflexivity|split]].
      + exists None, None, None, n3, n4, 0%nat. constructor; cbn [pst lat stalled saved hazards]; stf.
        * reflexivity.
        * exact Sh'.
        * reflexivity.
        * rewrite Him4, Him2. exact HP1.
        * exact HP2.
        * exact WL2.
        * exact Hex2.
        * lia.
        * exact Logic.I.
        * exact L3'.
        * cbn [lv]. lia.
        * cbn [lv]. lia.
        * cbn [lv]. lia.
        * intros _. cbn [advL nonempty]. rewrite HadvL3.
          split; [do 3 apply wfL_bub; exact WLn|]. split; [exact HPLn|].
          split; [exact Hexn|]. symmetry; exact Hpca.
        * congruence.
        * rewrite HadvL3. exact Hm4.
        * rewrite HadvL3. change (bcount (lt (lnxt L'))) with (bcount (nxt (uview L'))).
          change (bcount (bumped (pst p))) with (bcount (pst p)) in Hb1.
          change (bcount (uview L')) with (bcount (lt L')) in Hb4. lia.
        * rewrite HadvL3. change (pcount (lt (lnxt L'))) with (pcount (nxt (uview L'))).
          change (pcount (bumped (pst p))) with (pcount (pst p)) in Hp1.
          change (pcount (uview L')) with (pcount (lt L')) in Hp4. lia.
        * cbn [fired]. rewrite HadvL3, Hlhs, <- HadvL2. symmetry. exact Ho_l2.
        * change (exitc (bumped (pst p))) with (exitc (pst p)) in He1. congruence.
        * change (icount (bumped (pst p))) with (icount (pst p)) in Hi1. lia.
        * reflexivity.
      + intros ->. unfold mu, dcount. cbn [lat stalled]. rewrite Hl, Hst. lat5.
        rewrite Hn3, Hl2ne. cbn [nonempty]. lia.
      + split; [reflexivity|]. exists None, None, None, n3, n4. cbn [lat]. split; [reflexivity|].
        right. rewrite Hf3. repeat split; try assumption. discriminate. }
    cbn [finish]. cbn [finish fst] in Sh'.
    match goal with |- context [post p ?nx s4] =>
    assert (Hpost : post p nx s4 =
              {| pst := s4; lat := nx; stalled := None; saved := None; hazards := false |}) end.
    { assert (Hff : first_flush [n0; n1; n2; n3; n4] = None).
      { rewrite first_flush_5 by (assumption || apply id_on_flags). rewrite Hf4, Hf3, Hf2. reflexivity. }
      unfold post. rewrite Hst, Hsv, Hz.
      rewrite (stall_part_idle _ _ _ Hns), (flush_part_none _ _ _ _ _ Hff). reflexivity. }
    rewrite Hpost in *.
    set (LF := advL l0 (advL l1 (advL l2 L'))) in *.
    destruct (new_fetch P dead (uview LF) n0 (pc (pst p)) (pc s1)) as (dead' & Hdd & L0' & HF').
    { intros H0. destruct (HF H0) as (a & b & c & d). split; [apply wfL_uview; exact a|]. csplit; assumption. }
    { destruct n0; [destruct Hn0 as (a & b & c & _);
        change (pc (bumped (pst p))) with (pc (pst p)) in *; csplit; assumption|apply Hn0]. }
    assert (Hne1 : nonempty n1 = nonempty l0) by apply nonempty_id_on.
    split; [|split; [reflexivity|split]].
    + exists n0, n1, n2, n3, n4, dead'. constructor; cbn [pst lat stalled saved hazards].
      * reflexivity.
      * exact Sh'.
      * reflexivity.
      * rewrite Him4, Him2. exact HP1.
      * exact HP2.
      * exact WL2.
      * exact Hex2.
      * lia.
      * subst n1. destruct l0; [rewrite id_on_some; apply id_slot_Dsh|exact Logic.I].
      * exact L3'.
      * rewrite (advL_ne n3 l2) by exact Hne3.
        apply (lv_map P _ _ _ _ _ _ _ _ _ L1); try lia.
        destruct l1 as [x1|], n2 as [x2|]; try contradiction; [|exact Logic.I].
        destruct Hrel2 as (a & b & c). split; [exact a|]. split; [exact b|]. intros _ _ _ Hc. apply c, Hc.
      * rewrite (advL_ne n3 l2), (advL_ne n2 l1) by assumption.
        apply (lv_map P _ _ _ _ _ _ _ _ _ L0); try lia.
        subst n1. destruct l0 as [y|]; [rewrite id_on_some|exact Logic.I].
        split; [reflexivity|]. split; [reflexivity|]. intros Hlv _ (_ & Hay & _) _.
        apply id_operands_exact; [|exact Hay].
        change (regs (uview (advL l1 (advL l2 L')))) with (lr2 (advL l1 (advL l2 L'))).
        rewrite lr2_adv2. exact Hr2.
      * rewrite (advL_ne n3 l2), (advL_ne n2 l1), (advL_ne n1 l0) by assumption. exact L0'.
      * rewrite (advL_ne n3 l2), (advL_ne n2 l1), (advL_ne n1 l0) by assumption. fold LF.
        intros H0. destruct (HF' H0) as (a & b & c & d).
        assert (Hd0 : dead = 0%nat) by lia. destruct (HF Hd0) as (WLF & HPF & HexF & HpcF).
        assert (WLF' : wfL (advL n0 LF) /\ prog (im (lt (advL n0 LF))) = P).
        { apply wfL_advL; try assumption. destruct n0 as [x|]; [|exact Logic.I].
          cbn [lv] in L0'. apply (L0' ltac:(lia)). }
        destruct WLF' as [WLF' HPF'].
        split; [exact WLF'|]. split; [exact HPF'|].
        split; [rewrite advL_exitc; exact c|]. rewrite advL_pc. congruence.
      * congruence.
      * rewrite (advL_ne n3 l2) by assumption. rewrite advL_ms. exact Hm4.
      * rewrite (advL_ne n3 l2) by assumption. rewrite advL_bcount.
        change (bcount (bumped (pst p))) with (bcount (pst p)) in Hb1.
        change (bcount (uview L')) with (bcount (lt L')) in Hb4. lia.
      * rewrite (advL_ne n3 l2) by assumption. rewrite advL_pcount.
        change (pcount (bumped (pst p))) with (pcount (pst p)) in Hp1.
        change (pcount (uview L')) with (pcount (lt L')) in Hp4. lia.
      * rewrite (advL_ne n3 l2), (advL_ne n2 l1) by assumption.
        assert (WL1 : wfL (advL l2 L') /\ prog (im (lt (advL l2 L'))) = P).
        { apply wfL_advL; try assumption. destruct l2; [apply (L2 Logic.I)|exact Logic.I]. }
        destruct WL1 as [WL1 HP1'].
        rewrite Hlhs, Hfd2, Hne2. destruct l1 as [x1|]; cbn [nonempty]; [|symmetry; exact Ho_l2].
        transitivity (out (lt (advL l2 L'))); [symmetry; exact Ho_l2|].
        symmetry. apply advL_out_c; [exact WL1|exact HP1'|].
        cbn [lv] in L1. apply L1. lia.
      * change (exitc (bumped (pst p))) with (exitc (pst p)) in He1. congruence.
      * change (icount (bumped (pst p))) with (icount (pst p)) in Hi1. lia.
      * exact Hfd2.
    + intros ->. unfold mu, dcount. cbn [lat stalled]. rewrite Hl, Hst. lat5.
      rewrite Hne3, Hne2, Hne1. cbn [nonempty].
      destruct l2 as [x2|]; cbn [nonempty]; [lia|].
      destruct l1 as [x1|]; cbn [nonempty]; [lia|].
      destruct l0 as [x0|]; cbn [nonempty]; [lia|].
      destruct n0 as [x|]; cbn [nonempty]; [lia|]. exfalso.
      destruct Hn0 as [_ Hn0]. unfold pipe_done, pipe_empty in Hnd. rewrite Hexc, Hl in Hnd. lat5h Hnd.
      cbn [nonempty orb negb andb] in Hnd. unfold has_instr in Hnd. rewrite HPp in Hnd.
      change (pc (bumped (pst p))) with (pc (pst p)) in Hn0. rewrite Hn0 in Hnd. discriminate Hnd.
    + split; [reflexivity|]. exists n0, n1, n2, n3, n4. cbn [lat pst]. split; [reflexivity|]. left.
      split; [exact Hf3|].
      split; [exact Hne3|]. split; [exact Hne2|]. split; [exact Hne1|].
      unfold has_instr. rewrite Him4, Him2, HP1, Hpc4, Hpc2, HPp.
      change (pc (bumped (pst p))) with (pc (pst p)) in Hn0.
      destruct n0 as [x|]; cbn [nonempty].
      * destruct Hn0 as (_ & _ & Hix & _). rewrite Hix. split; [reflexivity|intros E; discriminate E].
      * destruct Hn0 as [Hpc0 Hix]. rewrite Hix. split; [reflexivity|]. intros _. rewrite Hpc0, Hix. reflexivity.
Qed.

(** * Redirecting slots *)
Lemma flush_redirects L x3 : lv3 P (uview L) (Some x3) ->
  (flush_of (Some x3) = None <-> redirects (sl_instr x3) (uview L) = false).
Proof.
  cbn [lv3 flush_of]. intros (_ & (_ & _ & Hi) & (e & te & tm & He & Hm) & _).
  pose proof (ne_at P HC _ _ Hi) as Hn.
  pose proof (ex_on_shape _ _ _ _ _ _ He) as (cmp & res & stall & ex & fl & He2 & Hst & _).
  pose proof (mem_on_shape _ _ _ _ Hm) as [rd Hx3]. injection Hx3 as Hx3. injection He2 as He2.
  change (sl_instr (dsl (uview L) (sl_instr x3))) with (sl_instr x3) in Hst.
  rewrite (noecall_not_ecall _ Hn) in Hst. cbn [andb] in Hst.
  assert (Hie : sl_instr e = sl_instr x3) by (rewrite He2; reflexivity).
  assert (Hse : sl_stall e = false) by (rewrite He2; cbn [ex_slot sl_stall]; exact Hst).
  assert (Hf : sl_flush x3 = mem_flush e) by (rewrite Hx3; reflexivity).
  rewrite Hf, <- Hie. apply mem_flush_redirects; [|exact Hse|rewrite Hie; exact Hn].
  unfold Eok. rewrite Hse, Hie. exists te. exact He.
Qed.

(** * Bubbles in the retire stream *)
Lemma bub_idem L : bub (bub (bub L)) = bub (bub L).
Proof. reflexivity. Qed.

Fixpoint leadb (bs : list bool) (L : lag) : lag :=
  match bs with false :: t => leadb t (bub L) | _ => L end.

Lemma lt_leadb bs : forall L, lt (leadb bs L) = lt L.
Proof. induction bs as [|[|] t IH]; intros L; cbn [leadb]; try reflexivity. rewrite IH. reflexivity. Qed.

Lemma leadb_drop b2 b1 b0 x X : leadb [b2; b1; b0; x] X = leadb [b2; b1; b0] X.
Proof. destruct b2, b1, b0, x; reflexivity. Qed.

(** * The bubble pattern: behind a redirecting slot in latch 3 latches 0..2 are empty;
      otherwise bubbles, instructions, bubbles *)
Definition PatC (p : pstate) (l0 l1 l2 l3 : latch) : Prop :=
  let bf := has_instr (im (pst p)) (pc (pst p)) in
  stalled p = None /\
  (flush_of l3 <> None -> l2 = None /\ l1 = None /\ l0 = None) /\
  (flush_of l3 = None -> mono5 (nonempty l3) (nonempty l2) (nonempty l1) (nonempty l0) bf = true).

Lemma ne_false_none (l : latch) : nonempty l = false -> l = None.
Proof. destruct l; [discriminate|reflexivity]. Qed.

Lemma PatC_step p p' l0 l1 l2 l3 n0 n1 n2 n3 n4 : PatC p l0 l1 l2 l3 -> stepinfo p p' l0 l1 l2 l3 ->
  lat p' = [n0; n1; n2; n3; n4] -> PatC p' n0 n1 n2 n3.
Proof.
  intros (_ & Hfl & Hm) (Hst & m0 & m1 & m2 & m3 & m4 & Hl' & Hcase) Hl.
  rewrite Hl in Hl'. injection Hl' as <- <- <- <- <-.
  unfold PatC. cbv zeta in *. split; [exact Hst|].
  destruct Hcase as [(Hf3 & E3 & E2 & E1 & E0 & Ef)|(Hf3 & -> & -> & -> & _)].
  2:{ split; [intros _; repeat split|intros H; contradiction]. }
  split; [intros H; contradiction|]. intros _. rewrite E3, E2, E1, E0.
  destruct (flush_of l3) as [a|] eqn:F3.
  - destruct (Hfl ltac:(discriminate)) as (-> & -> & ->). cbn [nonempty].
    destruct (has_instr (im (pst p)) (pc (pst p))), (has_instr (im (pst p')) (pc (pst p'))); reflexivity.
  - specialize (Hm eq_refl).
    destruct (nonempty l3), (nonempty l2), (nonempty l1), (nonempty l0),
      (has_instr (im (pst p)) (pc (pst p))) eqn:Bf; cbn in Hm; try discriminate Hm;
      rewrite E0 in Ef; try rewrite (Ef eq_refl);
      destruct (has_instr (im (pst p')) (pc (pst p'))); reflexivity.
Qed.

(** * The reference run on a program without ecall: three bubbles behind every redirect *)
Definition cur_red (L : lag) : bool :=
  match instr_at (prog (im (lt L))) (pc (lt L)) with
  | Some i => redirects i (uview L)
  | None => false
  end.
Definition after_red (red : bool) (L : lag) : lag := if red then bub (bub (bub L)) else L.

Fixpoint lagc_run (fuel : nat) (L : lag) : st * run_end :=
  match fuel with
  | O => (lt L, if single_done (lt L) then Done else OutOfFuel)
  | S k => if single_done (lt L) then (lt L, Done)
           else match lstep L with
                | (L', Some f) => (lt L', Faulted f)
                | (L', None) => lagc_run k (after_red (cur_red L) L')
                end
  end.
Fixpoint lagc_trace (fuel : nat) (L : lag) : list Z :=
  match fuel with
  | O => []
  | S k => if single_done (lt L) then []
           else match lstep L with
                | (_, Some _) => []
                | (L', None) => pc (lt L) :: lagc_trace k (after_red (cur_red L) L')
                end
  end.

Lemma lagc_run_done n L : single_done (lt L) = true -> lagc_run n L = (lt L, Done) /\ lagc_trace n L = [].
Proof. intros H. destruct n; cbn [lagc_run lagc_trace]; rewrite H; split; reflexivity. Qed.
Lemma lagc_run_step k L L' : single_done (lt L) = false -> lstep L = (L', None) ->
  lagc_run (S k) L = lagc_run k (after_red (cur_red L) L') /\
  lagc_trace (S k) L = pc (lt L) :: lagc_trace k (after_red (cur_red L) L').
Proof. intros H E. cbn [lagc_run lagc_trace]. rewrite H, E. split; reflexivity. Qed.
Lemma lagc_run_fault k L L' f : single_done (lt L) = false -> lstep L = (L', Some f) ->
  lagc_run (S k) L = (lt L', Faulted f).
Proof. intros H E. cbn [lagc_run]. rewrite H, E. reflexivity. Qed.

Definition csim_goal (n : nat) (M : lag) (p : pstate) : Prop :=
  match lagc_run n M with
  | (s', Done) => exists c p', Z.of_nat c <= 5 * Z.of_nat n + mu p /\
      pipe_run c p = (p', PDone) /\ arch_agree p' s' /\ pipe_trace c p = lagc_trace n M
  | (s', Faulted f) => exists c p', Z.of_nat c <= 5 * Z.of_nat n + mu p + 1 /\
      pipe_run c p = (p', PFaulted f) /\
      regs (pst p') = regs s' /\ ms (pst p') = ms s' /\ out (pst p') = out s'
  | (_, OutOfFuel) => True
  end.

(* M: the reference state in front of the next instruction to retire; L: the reference state
   aligned with write-back; they differ by the bubbles that lead the in-flight slots *)
Definition RelC (M L : lag) (p : pstate) (l0 l1 l2 l3 : latch) : Prop :=
  M = leadb [nonempty l3; nonempty l2; nonempty l1; nonempty l0] L \/
  (lt M = lt L /\ nonempty l3 = false /\ nonempty l2 = false /\ nonempty l1 = false /\
   nonempty l0 = false /\ has_instr (im (pst p)) (pc (pst p)) = false).

Definition CInvP (p : pstate) (M : lag) : Prop :=
  exists L l0 l1 l2 l3 l4 dead, DInvAt P p L l0 l1 l2 l3 l4 dead /\ PatC p l0 l1 l2 l3 /\
    RelC M L p l0 l1 l2 l3.

Lemma RelC_lt M L p l0 l1 l2 l3 : RelC M L p l0 l1 l2 l3 -> lt M = lt L.
Proof. intros [->|[H _]]; [apply lt_leadb|exact H]. Qed.

Lemma csim_done n M p : CInvP p M -> single_done (lt M) = true -> csim_goal n M p.
Proof.
  intros (L & l0 & l1 & l2 & l3 & l4 & dead & I & _ & HR) Hd. unfold csim_goal.
  pose proof (RelC_lt _ _ _ _ _ _ _ HR) as Hlt.
  destruct (lagc_run_done n M Hd) as [-> ->]. rewrite Hlt in *.
  destruct (ddone_empty P _ _ _ _ _ _ _ _ I Hd) as [-> ->].
  exists 0%nat, p. pose proof (mu_bounds p (dv_shape _ _ _ _ _ _ _ _ _ I)).
  split; [lia|]. split; [cbn [pipe_run]; rewrite (ddone_iff P _ _ _ _ _ _ _ _ I), Hd; reflexivity|].
  split; [eapply dinv_empty_agree; eauto|reflexivity].
Qed.

Definition has_flush (l : latch) : bool := match flush_of l with Some _ => true | None => false end.

Lemma RelC_next p p' L M l0 l1 l2 l3 n0 n1 n2 n3 n4 : PatC p l0 l1 l2 l3 ->
  stepinfo p p' l0 l1 l2 l3 -> lat p' = [n0; n1; n2; n3; n4] ->
  M = leadb [nonempty l3; nonempty l2; nonempty l1; nonempty l0] L ->
  RelC (match l3 with None => M | Some _ => after_red (has_flush l3) (lnxt L) end)
       (advL l3 L) p' n0 n1 n2 n3.
Proof.
  intros (_ & Hfl & Hm) (Hst & m0 & m1 & m2 & m3 & m4 & Hl' & Hcase) Hl HM.
  rewrite Hl in Hl'. injection Hl' as <- <- <- <- <-. cbv zeta in Hm.
  destruct l3 as [x3|]; cbn [nonempty leadb] in HM.
  - rewrite advL_some. unfold has_flush. destruct (flush_of (Some x3)) as [a|] eqn:F3; cbn [after_red].
    + destruct (Hfl ltac:(discriminate)) as (-> & -> & ->).
      destruct Hcase as [(Hf3 & E3 & E2 & E1 & E0 & Ef)|(_ & _ & _ & _ & H)]; [|discriminate H].
      left. rewrite E3, E2, E1. cbn [nonempty]. rewrite leadb_drop. reflexivity.
    + specialize (Hm eq_refl). cbn [nonempty] in Hm.
      destruct Hcase as [(Hf3 & E3 & E2 & E1 & E0 & Ef)|(Hf3 & -> & -> & -> & H2)].
      * destruct (nonempty l2) eqn:B2.
        { left. rewrite E3. reflexivity. }
        right. rewrite E3, E2, E1, E0.
        destruct (nonempty l1), (nonempty l0), (has_instr (im (pst p)) (pc (pst p))) eqn:Bf;
          cbn in Hm; try discriminate Hm.
        rewrite E0 in Ef. repeat split. apply Ef. reflexivity.
      * left. destruct n3 as [y3|]; [reflexivity|]. exfalso. apply Hf3. reflexivity.
  - rewrite advL_none. destruct Hcase as [(Hf3 & E3 & E2 & E1 & E0 & Ef)|(Hf3 & -> & -> & -> & H2)].
    + left. rewrite HM, E3, E2, E1, leadb_drop. reflexivity.
    + left. rewrite HM, H2. destruct n3 as [y3|]; [reflexivity|]. exfalso. apply Hf3. reflexivity.
Qed.

Lemma cur_red_flush L x3 : prog (im (lt L)) = P -> lv3 P (uview L) (Some x3) ->
  cur_red L = has_flush (Some x3).
Proof.
  intros HP L3. pose proof (flush_redirects L x3 L3) as H.
  destruct L3 as (_ & (_ & _ & Hi) & _). change (pc (uview L)) with (pc (lt L)) in Hi.
  unfold cur_red, has_flush. rewrite HP, Hi.
  destruct (flush_of (Some x3)); destruct (redirects (sl_instr x3) (uview L)); try reflexivity.
  - destruct H as [_ H]. discriminate (H eq_refl).
  - destruct H as [H _]. discriminate (H eq_refl).
Qed.

Lemma csim n : forall M p, CInvP p M -> csim_goal n M p.
Proof.
  induction n as [|k IHk]; intros M p Hinv.
  { destruct (single_done (lt M)) eqn:Hd; [apply csim_done; assumption|].
    unfold csim_goal. cbn [lagc_run]. rewrite Hd. exact Logic.I. }
  remember (Z.to_nat (mu p)) as m eqn:Hm. revert p Hinv Hm.
  induction m as [m IHm] using lt_wf_ind. intros p Hinv Hm.
  destruct (single_done (lt M)) eqn:Hd; [apply csim_done; assumption|].
  destruct Hinv as (L & l0 & l1 & l2 & l3 & l4 & dead & I & HPat & HR).
  pose proof (RelC_lt _ _ _ _ _ _ _ HR) as Hlt.
  pose proof (dv_shape _ _ _ _ _ _ _ _ _ I) as Sh. pose proof (mu_bounds p Sh) as Hmu.
  assert (Hpd : pipe_done p = false) by (rewrite (ddone_iff P _ _ _ _ _ _ _ _ I), <- Hlt; exact Hd).
  assert (HRM : M = leadb [nonempty l3; nonempty l2; nonempty l1; nonempty l0] L).
  { destruct HR as [HR|(_ & E3 & E2 & E1 & E0 & Ef)]; [exact HR|]. exfalso.
    unfold pipe_done, pipe_empty in Hpd.
    rewrite (dv_exitc _ _ _ _ _ _ _ _ _ I), (dv_lat _ _ _ _ _ _ _ _ _ I) in Hpd. lat5h Hpd.
    rewrite E3, E2, E1, E0, Ef in Hpd. discriminate Hpd. }
  pose proof HPat as (Hst & _ & _).
  pose proof (cstep_normal _ _ _ _ _ _ _ _ I Hst Hpd) as Hstep. unfold cstep_goal in Hstep.
  assert (H3 : forall x3, l3 = Some x3 -> lstep L = (lnxt L, None) /\ sl_addr x3 = pc (lt L) /\
                M = L /\ cur_red L = has_flush l3).
  { intros x3 E. subst l3. pose proof (dv_l3 _ _ _ _ _ _ _ _ _ I) as L3.
    pose proof L3 as (_ & (_ & Ha & _) & _ & Hok & _).
    split; [|split; [exact Ha|split; [exact HRM|apply cur_red_flush; [apply (dv_progs _ _ _ _ _ _ _ _ _ I)|exact L3]]]].
    unfold lnxt. destruct (lstep L) as [L1 o] eqn:E. cbn [fst].
    assert (Ho : o = snd (single_pipeline_step (uview L))) by (unfold lstep, vstep in E; injection E as _ <-; reflexivity).
    rewrite Ho, Hok. reflexivity. }
  assert (Hnext : forall p', stepinfo p p' l0 l1 l2 l3 -> DInv P p' (advL l3 L) ->
            CInvP p' (match l3 with None => M | Some _ => after_red (has_flush l3) (lnxt L) end)).
  { intros p' Hsi (m0 & m1 & m2 & m3 & m4 & dd & I'). exists (advL l3 L), m0, m1, m2, m3, m4, dd.
    pose proof (dv_lat _ _ _ _ _ _ _ _ _ I') as Hl'.
    split; [exact I'|]. split; [eapply PatC_step; eassumption|]. eapply RelC_next; eassumption. }
  destruct (pipe_step p) as [p' [f|]] eqn:Hps.
  - destruct Hstep as (Lm & Hss & Hnd & Hl2 & Hr & Hms & Ho).
    destruct l3 as [x3|]; cbn [advL nonempty] in *.
    + destruct (H3 x3 eq_refl) as (Hs3 & _ & HML & Hred). clear HRM. subst M. unfold csim_goal.
      destruct (lagc_run_step k L _ Hd Hs3) as [-> _].
      (* the retiring slot does not redirect: a younger slot is in MEM *)
      assert (Hnr : has_flush (Some x3) = false).
      { unfold has_flush. destruct (flush_of (Some x3)) eqn:F; [|reflexivity]. exfalso.
        destruct HPat as (_ & Hfl & _). destruct (Hfl ltac:(rewrite F; discriminate)) as (E2 & _).
        rewrite E2 in Hl2. discriminate Hl2. }
      rewrite Hred, Hnr. cbn [after_red].
      destruct k as [|k']; [cbn [lagc_run]; rewrite Hnd; exact Logic.I|].
      rewrite (lagc_run_fault k' _ _ _ Hnd Hss).
      exists 1%nat, p'. split; [lia|]. split; [apply pipe_run_fault; assumption|]. repeat split; assumption.
    + cbn [leadb] in HRM. rewrite Hl2 in HRM. cbn [leadb] in HRM. subst M.
      unfold csim_goal. rewrite (lagc_run_fault k _ _ _ Hd Hss).
      exists 1%nat, p'. split; [lia|]. split; [apply pipe_run_fault; assumption|]. repeat split; assumption.
  - destruct Hstep as (Hinv' & Hl4 & Hmu' & Hsi).
    pose proof (Hnext p' Hsi Hinv') as HinvP'.
    destruct l3 as [x3|]; cbn [advL nonempty option_map] in *.
    + destruct (H3 x3 eq_refl) as (Hs3 & Ha3 & HML & Hred). clear HRM. subst M.
      specialize (IHk _ p' HinvP').
      unfold csim_goal in *. destruct (lagc_run_step k L _ Hd Hs3) as [-> ->]. rewrite Hred.
      assert (Hmu4 : 0 <= mu p' <= 4).
      { destruct Hinv' as (? & ? & ? & ? & ? & ? & I'). apply mu_bounds. apply (dv_shape _ _ _ _ _ _ _ _ _ I'). }
      destruct (lagc_run k (after_red (has_flush (Some x3)) (lnxt L))) as [s' [|f|]]; [| |exact Logic.I].
      * destruct IHk as (c & p'' & Hc & Hrun & Hag & Htr). exists (S c), p''.
        destruct (pipe_run_step c p p' Hpd Hps) as [-> ->]. rewrite Hl4. cbn [some_addr wb_slot sl_addr app].
        split; [lia|]. split; [exact Hrun|]. split; [exact Hag|]. rewrite Htr, Ha3. reflexivity.
      * destruct IHk as (c & p'' & Hc & Hrun & Hag). exists (S c), p''.
        destruct (pipe_run_step c p p' Hpd Hps) as [-> _]. split; [lia|]. split; assumption.
    + specialize (Hmu' eq_refl).
      assert (Hlt' : (Z.to_nat (mu p') < m)%nat).
      { destruct Hinv' as (? & ? & ? & ? & ? & ? & I'). pose proof (mu_bounds p' (dv_shape _ _ _ _ _ _ _ _ _ I')). lia. }
      specialize (IHm _ Hlt' p' HinvP' eq_refl). unfold csim_goal in *.
      destruct (lagc_run (S k) M) as [s' [|f|]]; [| |exact Logic.I].
      * destruct IHm as (c & p'' & Hc & Hrun & Hag & Htr). exists (S c), p''.
        destruct (pipe_run_step c p p' Hpd Hps) as [-> ->]. rewrite Hl4. cbn [some_addr app].
        split; [lia|]. split; [exact Hrun|]. split; assumption.
      * destruct IHm as (c & p'' & Hc & Hrun & Hag). exists (S c), p''.
        destruct (pipe_run_step c p p' Hpd Hps) as [-> _]. split; [lia|]. split; assumption.
Qed.

(** * [dwb_run] on a program without ecall *)
Lemma dwb_run_noecall n : forall d, wfL (dl d) -> prog (im (lt (dl d))) = P ->
  dwb_run_from n d = lagc_run n (dl d) /\ dwb_trace_from n d = lagc_trace n (dl d).
Proof.
  induction n as [|k IH]; intros d WL HP; cbn [dwb_run_from lagc_run dwb_trace_from lagc_trace];
    [split; reflexivity|].
  destruct (single_done (lt (dl d))) eqn:Hd; [split; reflexivity|].
  unfold single_done, has_instr in Hd. destruct (exitc (lt (dl d))) eqn:Hex; [discriminate Hd|].
  destruct (instr_at (prog (im (lt (dl d)))) (pc (lt (dl d)))) as [i|] eqn:Hi; [|discriminate Hd].
  assert (Hn : noecall i = true) by (apply (ne_at P HC (pc (lt (dl d)))); rewrite <- HP; exact Hi).
  destruct (wfL_lnxt (dl d) i WL Hex Hi) as [WL' HP']. unfold lnxt in *.
  unfold dwb_step, cur_red. rewrite Hi, (noecall_not_ecall i Hn). cbn [andb].
  destruct (lstep (dl d)) as [L' [f|]]; cbn [fst snd dl lt] in *; [split; reflexivity|].
  destruct (redirects i (uview (dl d))); cbn [after_red].
  - destruct (IH (dbub (dbub (dbub {| dl := L'; do1 := true; do2 := do1 d |})))) as [A B].
    + cbn [dbub dl]. do 3 apply wfL_bub. exact WL'.
    + cbn [dbub dl bub lt]. congruence.
    + cbn [dbub dl] in *. rewrite A, B. split; reflexivity.
  - destruct (IH {| dl := L'; do1 := true; do2 := do1 d |} WL' ltac:(cbn [dl]; congruence)) as [A B].
    cbn [dl] in *. rewrite A, B. split; reflexivity.
Qed.

End Control.

(** * The characterisation for programs without ecall *)
Theorem flagoff_is_dwb_noecall P s n :
  Forall (fun i => noecall i = true) P -> wf s -> prog (im s) = P ->
  match dwb_run n s with
  | (s', Done) => exists c p, (c <= 8 * n + 8)%nat /\
      pipe_run c (pipe_init s false) = (p, PDone) /\ arch_agree p s' /\
      pipe_trace c (pipe_init s false) = dwb_trace n s
  | (s', Faulted f) => exists c p, (c <= 8 * n + 8)%nat /\
      pipe_run c (pipe_init s false) = (p, PFaulted f) /\
      regs (pst p) = regs s' /\ ms (pst p) = ms s' /\ out (pst p) = out s'
  | (_, OutOfFuel) => True
  end.
Proof.
  intros HC W HP.
  assert (WL : wfL (lag_init s)) by (split; [exact W|split; apply (wf_r _ W)]).
  unfold dwb_run, dwb_trace.
  destruct (dwb_run_noecall P HC n (dwb_init s) WL HP) as [-> ->]. change (dl (dwb_init s)) with (lag_init s).
  destruct (exitc s) as [c0|] eqn:Hex.
  - assert (Hd : single_done (lt (lag_init s)) = true) by (unfold single_done; cbn [lag_init lt]; rewrite Hex; reflexivity).
    destruct (lagc_run_done n _ Hd) as [-> ->].
    exists 0%nat, (pipe_init s false). split; [lia|].
    split; [cbn [pipe_run]; unfold pipe_done; cbn [pipe_init pst]; rewrite Hex; reflexivity|].
    split; [unfold arch_agree; cbn [pipe_init pst lag_init lt]; repeat split|reflexivity].
  - assert (HI : CInvP P (pipe_init s false) (lag_init s)).
    { destruct (dinv_init P s W HP Hex) as (l0 & l1 & l2 & l3 & l4 & dead & I).
      exists (lag_init s), l0, l1, l2, l3, l4, dead. split; [exact I|].
      pose proof (dv_lat _ _ _ _ _ _ _ _ _ I) as Hl. cbn [pipe_init lat] in Hl. injection Hl as <- <- <- <- <-.
      split.
      - split; [reflexivity|]. cbv zeta. cbn [nonempty flush_of].
        split; [intros H; exfalso; apply H; reflexivity|]. intros _. destruct (has_instr _ _); reflexivity.
      - left. reflexivity. }
    pose proof (csim P HC n _ _ HI) as H. unfold csim_goal in H.
    assert (Hmu : mu (pipe_init s false) = 4) by reflexivity. rewrite Hmu in H.
    destruct (lagc_run n (lag_init s)) as [s' [|f|]]; [| |exact Logic.I].
    + destruct H as (c & p & Hc & Hrun & Hag & Htr). exists c, p. split; [lia|]. split; [exact Hrun|split; assumption].
    + destruct H as (c & p & Hc & Hrun & Hag). exists c, p. split; [lia|]. split; assumption.
Qed.
Print Assumptions flagoff_is_dwb_noecall.
