(* Proofs/LiftPipe.v — the five stages of the pipeline with any data cache and any instruction
   cache against the same stages on flat memory without instruction cache. *)
From Coq Require Import Lia ZifyBool.
From ArchSim Require Import Spec.RefCache.
From ArchSim Require Import Model.Base Model.Mem Model.Cache Model.Fmt Model.RV Model.Single
  Model.RVSplit Model.Pipe
  Proofs.WordLemmas Proofs.MapLemmas Proofs.CacheArith Proofs.CacheInv Proofs.C03Proofs
  Proofs.LiftFlat Proofs.LiftAccess Proofs.LiftSim Proofs.LiftEcall Proofs.LiftSingle.
Open Scope Z_scope.
Local Arguments Z.mul : simpl never.
Local Arguments Z.add : simpl never.
Local Arguments Z.sub : simpl never.
Local Arguments Z.pow : simpl never.
Local Arguments Z.div : simpl never.
Local Arguments Z.modulo : simpl never.
Local Arguments Z.of_nat : simpl never.
Local Arguments Z.to_nat : simpl never.

(** * Vocabulary *)
(* the data access of the MEM stage: (is a write, width, address) *)
Definition macc (i : instr) (addr data : option Z) : option (bool * Z * Z) :=
  match i with
  | ILoad o _ _ _ => match addr with Some a => Some (false, load_bits o, a) | None => None end
  | IStore o _ _ _ =>
      match addr, data with Some a, Some _ => Some (true, store_bits o, a) | _, _ => None end
  | _ => None
  end.
Definition slot_access (x : slot) : option (bool * Z * Z) := macc (sl_instr x) (sl_result x) (sl_rd2 x).

Definition acc_rejects (g : mcfg) (acc : option (bool * Z * Z)) : option err :=
  match g, acc with
  | Some (c, wt), Some (w, nb, a) => if xw nb a then cerr c wt w nb a else None
  | _, _ => None
  end.
(* the error with which a cache of configuration g rejects the MEM access of slot x *)
Definition slot_rejects (g : mcfg) (x : slot) : option err := acc_rejects g (slot_access x).

Definition rmapS {A} (g : mcfg) (st : bool) (r : res A) : res A :=
  match r with Ok v => Ok v | Err e => Err (emap g st e) end.

Lemma acc_rejects_none g : acc_rejects g None = None.
Proof. destruct g as [[c wt]|]; reflexivity. Qed.
Lemma acc_rejects_flat acc : acc_rejects None acc = None.
Proof. reflexivity. Qed.

(** * IF *)
Lemma sim_stage_if s t l s' : sim s t -> stage_if s = (l, s') ->
  exists t', stage_if t = (l, t') /\ sim s' t' /\ ms_cfg (ms s') = ms_cfg (ms s).
Proof.
  intros S H. unfold stage_if in *. rewrite <- (sim_has_instr s t S), <- (sm_pc _ _ S).
  destruct (has_instr (im s) (pc s)) eqn:Hh.
  - destruct (fetch s (pc s)) as [oi s1] eqn:Hf.
    destruct (sim_fetch s t (pc s) oi s1 S Hh Hf) as (t1 & Hf' & S1 & _ & Hms & _ & _). rewrite Hf'.
    destruct oi as [i|]; injection H as <- <-; eexists; (split; [reflexivity|]).
    + split; [|cbn [with_pc ms]; rewrite Hms; reflexivity].
      apply sim_with_pc2; [exact S1 | rewrite (sm_pc _ _ S1); reflexivity].
    + split; [exact S1 | rewrite Hms; reflexivity].
  - injection H as <- <-. eexists. split; [reflexivity|]. split; [exact S | reflexivity].
Qed.

(** * ID *)
Lemma sim_access_rf i s t : sim s t -> access_rf i s = access_rf i t.
Proof. intros S. unfold access_rf, rget. rewrite (sm_regs _ _ S). reflexivity. Qed.

Lemma sim_stage_id hz r own s t : sim s t -> stage_id hz r own s = stage_id hz r own t.
Proof.
  intros S. unfold stage_id. destruct (lat_at r own) as [x|]; [|reflexivity].
  rewrite (sim_access_rf (sl_instr x) s t S). reflexivity.
Qed.

(** * EX *)
Lemma alu_err i a b e : alu_compute i a b = Err e -> e = EOther 7.
Proof.
  unfold alu_compute. destruct i; destruct a, b; intros H; try discriminate; injection H as <-; reflexivity.
Qed.

Lemma sim_stage_ex r own s t l s' oe : sim s t -> stage_ex r own s = (l, s', oe) ->
  exists t' oe', stage_ex r own t = (l, t', oe') /\ sim s' t' /\ ms_cfg (ms s') = ms_cfg (ms s) /\
    oe = option_map (emap (ms_cfg (ms s)) false) oe' /\
    (forall e', oe' = Some e' ->
       e' = EOther 7 \/ exists x, lat_at r own = Some x /\ sl_instr x = IEcall).
Proof.
  intros S H. unfold stage_ex in *. destruct (lat_at r own) as [x|].
  2:{ injection H as <- <- <-. eexists; eexists. split; [reflexivity|]. split; [exact S|].
      split; [reflexivity|]. split; [reflexivity|]. intros e' E. discriminate. }
  cbv zeta in *.
  destruct (alu_compute (sl_instr x) _ _) as [[cmp result]|e] eqn:Ealu.
  2:{ injection H as <- <- <-. eexists; eexists. split; [reflexivity|]. split; [exact S|].
      split; [reflexivity|]. pose proof (alu_err _ _ _ _ Ealu) as ->.
      split; [cbn [option_map]; rewrite emap_notaddr by exact Logic.I; reflexivity|].
      intros e' E. injection E as <-. left. reflexivity. }
  destruct (is_ecall (sl_instr x)) eqn:Eec.
  2:{ injection H as <- <- <-. eexists; eexists. split; [reflexivity|]. split; [exact S|].
      split; [reflexivity|]. split; [reflexivity|]. intros e' E. discriminate. }
  match type of H with (if ?b then _ else _) = _ => destruct b end.
  { injection H as <- <- <-. eexists; eexists. split; [reflexivity|]. split; [exact S|].
    split; [reflexivity|]. split; [reflexivity|]. intros e' E. discriminate. }
  destruct (process_ecall s) as [rr s1] eqn:Hp.
  destruct (sim_ecall s t rr s1 S Hp) as (rr' & Hp' & S1 & Hcfg & ->). rewrite Hp'.
  assert (Hx : sl_instr x = IEcall) by (destruct (sl_instr x); try discriminate; reflexivity).
  destruct rr' as [[tx|c]|e]; cbn [rmapA] in H; injection H as <- <- <-; eexists; eexists;
    (split; [reflexivity|]).
  - split; [apply sim_with_out; [exact S1 | rewrite (sm_out _ _ S1); reflexivity]|].
    split; [exact Hcfg|]. split; [reflexivity|]. intros e' E. discriminate.
  - split; [exact S1|]. split; [exact Hcfg|]. split; [reflexivity|]. intros e' E. discriminate.
  - split; [exact S1|]. split; [exact Hcfg|]. split; [reflexivity|].
    intros e' E. right. exists x. split; [reflexivity | exact Hx].
Qed.

(** * MEM *)
Lemma sim_memory_access i addr data s t r s' : sim s t -> memory_access i addr data s = (r, s') ->
  exists r' t', memory_access i addr data t = (r', t') /\ ms_cfg (ms s') = ms_cfg (ms s) /\
    match acc_rejects (ms_cfg (ms s)) (macc i addr data) with
    | Some e => r = Err e /\ sim s' t
    | None => r = rmapS (ms_cfg (ms s)) (is_store i) r' /\ sim s' t'
    end.
Proof.
  intros S H. unfold memory_access in *.
  assert (Triv : (@Ok (option Z) None, s) = (r, s') -> macc i addr data = None ->
    exists r' t', (@Ok (option Z) None, t) = (r', t') /\ ms_cfg (ms s') = ms_cfg (ms s) /\
      match acc_rejects (ms_cfg (ms s)) (macc i addr data) with
      | Some e => r = Err e /\ sim s' t
      | None => r = rmapS (ms_cfg (ms s)) (is_store i) r' /\ sim s' t'
      end).
  { intros E Hm. injection E as <- <-. eexists; eexists. split; [reflexivity|]. split; [reflexivity|].
    rewrite Hm, acc_rejects_none. split; [reflexivity | exact S]. }
  destruct i; try (apply Triv; [exact H | reflexivity]).
  - (* load *)
    destruct addr as [a|].
    2:{ injection H as <- <-. eexists; eexists. split; [reflexivity|]. split; [reflexivity|].
        cbn [macc]. rewrite acc_rejects_none. split; [|exact S]. cbn [rmapS is_store].
        rewrite emap_notaddr by exact Logic.I. reflexivity. }
    destruct (st_read s (load_bits o) a true) as [rv s1] eqn:Hr.
    destruct (sim_st_read s t _ a true rv s1 S (okw_load o) Hr) as (rv' & Hr' & S1 & Hcfg & Hin & Hx).
    rewrite Hr'. cbn [macc is_store]. unfold acc_rejects.
    assert (Es : s' = s1) by (destruct rv; injection H as _ <-; reflexivity). subst s'.
    destruct (xw (load_bits o) a) eqn:Ex.
    + specialize (Hx eq_refl). destruct (ms_cfg (ms s)) as [[c wt]|] eqn:Eg.
      * destruct Hx as (e & He & ->). injection H as <-. rewrite He.
        destruct rv'; (eexists; eexists; split; [reflexivity|]; split; [exact Hcfg|]; split; [reflexivity | exact S1]).
      * subst rv'. destruct rv as [v|e]; injection H as <-;
          (eexists; eexists; split; [reflexivity|]; split; [exact Hcfg|]; split; [reflexivity | exact S1]).
    + specialize (Hin eq_refl). subst rv.
      assert (G : match ms_cfg (ms s) with Some (c, wt) => @None err | None => None end = None)
        by (destruct (ms_cfg (ms s)) as [[? ?]|]; reflexivity).
      rewrite G. destruct rv' as [v|e]; cbn [rmap] in H; injection H as <-;
        (eexists; eexists; split; [reflexivity|]; split; [exact Hcfg|]; split; [reflexivity | exact S1]).
  - (* store *)
    destruct addr as [a|]; [|apply Triv; [exact H | reflexivity]].
    destruct data as [d|]; [|apply Triv; [exact H | reflexivity]].
    destruct (st_write s (store_bits o) a (U (store_bits o) d) false) as [e s1] eqn:Hw.
    destruct (sim_st_write s t _ a _ e s1 S (okw_store o) (store_val_range o _) Hw)
      as (e' & t1 & Hw' & Hcfg & Hin & Hx).
    rewrite Hw'. cbn [macc is_store]. unfold acc_rejects.
    assert (Es : s' = s1 /\ r = match e with None => @Ok (option Z) None | Some e0 => Err e0 end)
      by (destruct e; injection H as <- <-; split; reflexivity).
    destruct Es as [-> ->].
    assert (Et : exists r' : res (option Z),
                 (match e' with None => (@Ok (option Z) None, t1) | Some e0 => (Err e0, t1) end) = (r', t1) /\
                 r' = match e' with None => Ok None | Some e0 => Err e0 end)
      by (destruct e'; eexists; split; reflexivity).
    destruct Et as (r' & Et & ->). rewrite Et. eexists; eexists. split; [reflexivity|]. split; [exact Hcfg|].
    destruct (xw (store_bits o) a) eqn:Ex.
    + specialize (Hx eq_refl). destruct (ms_cfg (ms s)) as [[c wt]|] eqn:Eg.
      * destruct Hx as (e0 & He0 & -> & S1). rewrite He0. split; [reflexivity | exact S1].
      * destruct Hx as [-> S1]. split; [destruct e'; reflexivity | exact S1].
    + destruct (Hin eq_refl) as [-> S1].
      assert (G : match ms_cfg (ms s) with Some (c, wt) => @None err | None => None end = None)
        by (destruct (ms_cfg (ms s)) as [[? ?]|]; reflexivity).
      rewrite G. split; [destruct e'; reflexivity | exact S1].
Qed.

Lemma sim_stage_mem r own s t l s' oe : sim s t -> stage_mem r own s = (l, s', oe) ->
  exists l' t' oe', stage_mem r own t = (l', t', oe') /\ ms_cfg (ms s') = ms_cfg (ms s) /\
    match lat_at r own with
    | None => l = l' /\ oe = None /\ oe' = None /\ sim s' t'
    | Some x =>
        match slot_rejects (ms_cfg (ms s)) x with
        | Some e => oe = Some e /\ sim s' t
        | None => l = l' /\ oe = option_map (emap (ms_cfg (ms s)) (is_store (sl_instr x))) oe' /\ sim s' t'
        end
    end.
Proof.
  intros S H. unfold stage_mem in *. destruct (lat_at r own) as [x|].
  2:{ injection H as <- <- <-. eexists; eexists; eexists. split; [reflexivity|]. split; [reflexivity|].
      split; [reflexivity|]. split; [reflexivity|]. split; [reflexivity | exact S]. }
  destruct (memory_access (sl_instr x) (sl_result x) (sl_rd2 x) s) as [rr s1] eqn:Hm.
  destruct (sim_memory_access _ _ _ s t rr s1 S Hm) as (rr' & t1 & Hm' & Hcfg & Hres). rewrite Hm'.
  unfold slot_rejects, slot_access.
  destruct (acc_rejects (ms_cfg (ms s)) (macc (sl_instr x) (sl_result x) (sl_rd2 x))) as [e|].
  - destruct Hres as [-> S1]. injection H as <- <- <-.
    destruct rr'; (eexists; eexists; eexists; split; [reflexivity|]; split; [exact Hcfg|];
                   split; [reflexivity | exact S1]).
  - destruct Hres as [-> S1]. destruct rr' as [rdata|e']; cbn [rmapS] in H.
    + cbv zeta in H. injection H as <- <- <-. eexists; eexists; eexists. split; [reflexivity|].
      assert (K : forall (u1 u2 : st) (b : bool) fl, sim u1 u2 ->
                ms (match fl : option Z with None => u1 | Some _ =>
                      if is_btype (sl_instr x) then with_bcount u1 (bcount u1 + 1)
                      else if is_jal (sl_instr x) then with_pcount u1 (pcount u1 + 1) else u1 end) = ms u1 /\
                sim (match fl : option Z with None => u1 | Some _ =>
                      if is_btype (sl_instr x) then with_bcount u1 (bcount u1 + 1)
                      else if is_jal (sl_instr x) then with_pcount u1 (pcount u1 + 1) else u1 end)
                    (match fl with None => u2 | Some _ =>
                      if is_btype (sl_instr x) then with_bcount u2 (bcount u2 + 1)
                      else if is_jal (sl_instr x) then with_pcount u2 (pcount u2 + 1) else u2 end)).
      { intros u1 u2 _ fl Su. destruct fl; [|split; [reflexivity | exact Su]].
        destruct (is_btype (sl_instr x)); [split; [reflexivity|]; apply sim_with_bcount; [exact Su | rewrite (sm_bc _ _ Su); reflexivity]|].
        destruct (is_jal (sl_instr x)); [split; [reflexivity|]; apply sim_with_pcount; [exact Su | rewrite (sm_pcn _ _ Su); reflexivity]|].
        split; [reflexivity | exact Su]. }
      match goal with |- ms_cfg (ms (match ?fl with _ => _ end)) = _ /\ _ =>
        destruct (K s1 t1 true fl S1) as [K1 K2] end.
      split; [rewrite K1; exact Hcfg|]. split; [reflexivity|]. split; [reflexivity | exact K2].
    + injection H as <- <- <-. eexists; eexists; eexists. split; [reflexivity|]. split; [exact Hcfg|].
      split; [reflexivity|]. split; [reflexivity | exact S1].
Qed.

(** * WB *)
Lemma sim_stage_wb r own s t l s' oe : sim s t -> stage_wb r own s = (l, s', oe) ->
  exists t', stage_wb r own t = (l, t', oe) /\ sim s' t' /\ ms_cfg (ms s') = ms_cfg (ms s) /\
             (forall e, oe = Some e -> e = EOther 7).
Proof.
  intros S H. unfold stage_wb in *. destruct (lat_at r own) as [x|].
  2:{ injection H as <- <- <-. eexists. split; [reflexivity|]. split; [exact S|]. split; [reflexivity|].
      intros e E. discriminate. }
  cbv zeta in *.
  set (s1 := with_icount s (icount s + 1)) in *. set (t1 := with_icount t (icount t + 1)).
  assert (S1 : sim s1 t1) by (apply sim_with_icount; [exact S | rewrite (sm_ic _ _ S); reflexivity]).
  set (data := match c_wb (signals (sl_instr x)) with
               | Some 0 => Some (sl_addr x + 4) | Some 1 => sl_memdata x | Some 2 => sl_result x
               | Some 3 => sl_imm x | _ => None end) in *.
  assert (WB : exists t2, write_back (sl_instr x) (sl_wreg x) data t1 =
                          (t2, snd (write_back (sl_instr x) (sl_wreg x) data s1)) /\
                 sim (fst (write_back (sl_instr x) (sl_wreg x) data s1)) t2 /\
                 ms (fst (write_back (sl_instr x) (sl_wreg x) data s1)) = ms s /\
                 (forall e, snd (write_back (sl_instr x) (sl_wreg x) data s1) = Some e -> e = EOther 7)).
  { unfold write_back.
    assert (Id : exists t2, (t1, @None err) = (t2, snd (s1, @None err)) /\ sim (fst (s1, @None err)) t2 /\
                   ms (fst (s1, @None err)) = ms s /\ (forall e, snd (s1, @None err) = Some e -> e = EOther 7)).
    { eexists. split; [reflexivity|]. split; [exact S1|]. split; [reflexivity|]. intros e E. discriminate. }
    destruct (sl_instr x); try exact Id;
      (destruct (sl_wreg x) as [rr|], data as [d|]; cbn [fst snd];
       [eexists; split; [reflexivity|]; split; [apply sim_rset; [exact S1 | reflexivity]|];
        split; [rewrite rset_ms; reflexivity|]; intros e E; discriminate
       |eexists; split; [reflexivity|]; split; [exact S1|]; split; [reflexivity|];
        intros e E; injection E as <-; reflexivity ..]). }
  destruct WB as (t2 & Hwb & S2 & Hms2 & Herr). rewrite Hwb.
  destruct (write_back (sl_instr x) (sl_wreg x) data s1) as [s2 [e|]]; cbn [fst snd] in *.
  - injection H as <- <- <-. eexists. split; [reflexivity|]. split; [exact S2|].
    split; [rewrite Hms2; reflexivity | exact Herr].
  - destruct (sl_exit x) as [c|]; injection H as <- <- <-; eexists; (split; [reflexivity|]).
    + split; [apply sim_with_exit; exact S2|]. split; [cbn [with_exit ms]; rewrite Hms2; reflexivity|].
      intros e E. discriminate.
    + split; [exact S2|]. split; [rewrite Hms2; reflexivity|]. intros e E. discriminate.
Qed.

(** * The five stages of one cycle *)
Definition with_pst (p : pstate) (t : st) : pstate :=
  {| pst := t; lat := lat p; stalled := stalled p; saved := saved p; hazards := hazards p |}.

Lemma regs_for_with_pst p t i : regs_for (with_pst p t) i = regs_for p i.
Proof. reflexivity. Qed.

(* the input of the MEM stage in this cycle *)
Definition mem_input (p : pstate) : latch := lat_at (regs_for p 3) 2.

Definition stages_agree (g : mcfg) (mi : latch) (next next' : list latch) (s' t' : st)
    (of of' : option fault) : Prop :=
  next = next' /\ sim s' t' /\ of = option_map (fmap g) of' /\
  (forall ff, of' = Some ff ->
     f_err ff = EOther 7 \/ f_instr ff = IEcall \/ exists z, mi = Some z /\ slot_rejects g z = None) /\
  (of = None -> forall z, mi = Some z -> slot_rejects g z = None).

Definition stages_reject (g : mcfg) (mi : latch) (of : option fault) : Prop :=
  exists z e, mi = Some z /\ slot_rejects g z = Some e /\ of = Some (mkfault (sl_addr z) (sl_instr z) e).

Lemma fault_of_fmap g r own e' x : lat_at r own = Some x ->
  (e' = EOther 7 \/ emap g false e' = emap g (is_store (sl_instr x)) e') ->
  fault_of r own (emap g (is_store (sl_instr x)) e') = option_map (fmap g) (fault_of r own e').
Proof. intros Hx _. unfold fault_of. rewrite Hx. reflexivity. Qed.

Lemma fault_of_cases r own e : exists f, fault_of r own e = Some f /\ f_err f = e /\
  (forall x, lat_at r own = Some x -> f = mkfault (sl_addr x) (sl_instr x) e).
Proof.
  unfold fault_of. destruct (lat_at r own) as [y|]; eexists; (split; [reflexivity|]); (split; [reflexivity|]).
  - intros x E. injection E as <-. reflexivity.
  - intros x E. discriminate.
Qed.

Lemma fmap_other7 g f : f_err f = EOther 7 -> fmap g f = f.
Proof. destruct f as [a i e]. cbn [f_err]. intros ->. unfold fmap. cbn [f_addr f_instr f_err]. rewrite emap_notaddr by exact Logic.I. reflexivity. Qed.

Lemma sim_run_stages p t next s' of : sim (pst p) t -> run_stages p = (next, s', of) ->
  exists next' t' of', run_stages (with_pst p t) = (next', t', of') /\
    ms_cfg (ms s') = ms_cfg (ms (pst p)) /\
    (stages_agree (ms_cfg (ms (pst p))) (mem_input p) next next' s' t' of of' \/
     stages_reject (ms_cfg (ms (pst p))) (mem_input p) of).
Proof.
  intros S0 H. unfold run_stages in *. cbn [pst with_pst lat stalled saved hazards].
  rewrite !regs_for_with_pst. set (g := ms_cfg (ms (pst p))) in *.
  (* IF *)
  assert (HIF : exists n0 s1 t1,
     (match stalled p with Some _ => (lat_at (lat p) 0, pst p) | None => stage_if (pst p) end) = (n0, s1) /\
     (match stalled p with Some _ => (lat_at (lat p) 0, t) | None => stage_if t end) = (n0, t1) /\
     sim s1 t1 /\ ms_cfg (ms s1) = g).
  { destruct (stalled p) as [kd|].
    - eexists; eexists; eexists. split; [reflexivity|]. split; [reflexivity|]. split; [exact S0 | reflexivity].
    - destruct (stage_if (pst p)) as [n0 s1] eqn:Hif.
      destruct (sim_stage_if _ t n0 s1 S0 Hif) as (t1 & Hif' & S1 & Hc1).
      exists n0, s1, t1. split; [reflexivity|]. split; [exact Hif'|]. split; [exact S1 | exact Hc1]. }
  destruct HIF as (n0 & s1 & t1 & E1 & E1' & S1 & Hc1). rewrite E1 in H. rewrite E1'. clear E1 E1'.
  (* WB *)
  destruct (stage_wb (regs_for p 4) 3 s1) as [[n4 s2] o4] eqn:Hwb.
  destruct (sim_stage_wb _ _ s1 t1 n4 s2 o4 S1 Hwb) as (t2 & Hwb' & S2 & Hc2 & He4). rewrite Hwb'.
  rewrite Hc1 in Hc2.
  destruct o4 as [e4|].
  { injection H as <- <- <-. eexists; eexists; eexists. split; [reflexivity|]. split; [exact Hc2|]. left.
    rewrite (He4 e4 eq_refl). destruct (fault_of_cases (regs_for p 4) 3 (EOther 7)) as (f & Ef & Eerr & _).
    rewrite Ef. split; [reflexivity|]. split; [exact S2|]. split.
    - cbn [option_map]. rewrite (fmap_other7 g f Eerr). reflexivity.
    - split; [|intros E; discriminate]. intros ff E. injection E as <-. left. exact Eerr. }
  (* ID *)
  rewrite <- (sim_stage_id (hazards p) (regs_for p 1) 0 s2 t2 S2).
  set (n1 := stage_id (hazards p) (regs_for p 1) 0 s2) in *.
  (* EX *)
  destruct (stage_ex (regs_for p 2) 1 s2) as [[n2 s3] o2] eqn:Hex.
  destruct (sim_stage_ex _ _ s2 t2 n2 s3 o2 S2 Hex) as (t3 & o2' & Hex' & S3 & Hc3 & Ho2 & Htag2). rewrite Hex'.
  rewrite Hc2 in Hc3, Ho2.
  destruct o2' as [e2'|]; cbn [option_map] in Ho2; subst o2.
  { injection H as <- <- <-. eexists; eexists; eexists. split; [reflexivity|]. split; [exact Hc3|]. left.
    split; [reflexivity|]. split; [exact S3|].
    destruct (Htag2 e2' eq_refl) as [->|(x & Hx & Hi)].
    - rewrite emap_notaddr by exact Logic.I.
      destruct (fault_of_cases (regs_for p 2) 1 (EOther 7)) as (f & Ef & Eerr & _). rewrite Ef. split.
      + cbn [option_map]. rewrite (fmap_other7 g f Eerr). reflexivity.
      + split; [|intros E; discriminate]. intros ff E. injection E as <-. left. exact Eerr.
    - unfold fault_of. rewrite Hx. split.
      + cbn [option_map]. unfold fmap. cbn [f_addr f_instr f_err]. rewrite Hi. reflexivity.
      + split; [|intros E; discriminate]. intros ff E. right. left. injection E as <-. exact Hi. }
  (* MEM *)
  destruct (stage_mem (regs_for p 3) 2 s3) as [[n3 s4] o3] eqn:Hmem.
  destruct (sim_stage_mem _ _ s3 t3 n3 s4 o3 S3 Hmem) as (n3' & t4 & o3' & Hmem' & Hc4 & Hres). rewrite Hmem'.
  rewrite Hc3 in Hc4, Hres. unfold mem_input.
  destruct (lat_at (regs_for p 3) 2) as [z|] eqn:Hz.
  2:{ destruct Hres as (-> & -> & -> & S4). injection H as <- <- <-.
      eexists; eexists; eexists. split; [reflexivity|]. split; [exact Hc4|]. left.
      split; [reflexivity|]. split; [exact S4|]. split; [reflexivity|].
      split; [intros ff E; discriminate | intros _ z E; discriminate]. }
  destruct (slot_rejects g z) as [e|] eqn:Hrej.
  - destruct Hres as [-> S4]. injection H as <- <- <-.
    destruct o3' as [e3'|]; (eexists; eexists; eexists; split; [reflexivity|]; split; [exact Hc4|]; right;
      exists z, e; split; [reflexivity|]; split; [exact Hrej|]; unfold fault_of; rewrite Hz; reflexivity).
  - destruct Hres as (-> & -> & S4).
    destruct o3' as [e3'|]; cbn [option_map] in H; injection H as <- <- <-;
      eexists; eexists; eexists; (split; [reflexivity|]); (split; [exact Hc4|]); left.
    + unfold fault_of. rewrite Hz. split; [reflexivity|]. split; [exact S4|]. split; [reflexivity|].
      split; [|intros E; discriminate]. intros ff E. right. right. exists z. split; [reflexivity | exact Hrej].
    + split; [reflexivity|]. split; [exact S4|]. split; [reflexivity|].
      split; [intros ff E; discriminate|]. intros _ z' E. injection E as <-. exact Hrej.
Qed.
