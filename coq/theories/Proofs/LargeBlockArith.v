(* Proofs/LargeBlockArith.v — address decoding for cache geometries WITHOUT the bound bbits <= 12
   of Proofs/CacheArith.v ([geom_ok] there).  Same lemma names as in CacheArith.v (this file is
   imported after it by the LargeBlock* files, so that the proofs copied from Proofs/CacheInv.v
   see these versions).  The only statement that changes is the last clause of [decode_spec]:
   "x >= 2^14 <-> block base >= 2^14" holds only for bbits <= 12 (the block size then divides
   2^14); in general only "block base >= 2^14 -> x >= 2^14" (the base is <= x). *)
From Coq Require Import Lia ZifyBool.
From ArchSim Require Import Model.Base Model.Mem Model.Cache Proofs.WordLemmas Proofs.CacheArith.
Open Scope Z_scope.
Ltac Zify.zify_post_hook ::= Z.to_euclidean_division_equations.
Local Arguments Z.mul : simpl never.
Local Arguments Z.add : simpl never.
Local Arguments Z.sub : simpl never.
Local Arguments Z.pow : simpl never.
Local Arguments Z.div : simpl never.
Local Arguments Z.modulo : simpl never.
Local Arguments Z.land : simpl never.
Local Arguments Z.shiftl : simpl never.
Local Arguments Z.shiftr : simpl never.

Definition geom_ok (ib bb : Z) : Prop := 0 <= ib /\ 0 <= bb /\ ib + bb + 2 <= 32.

Lemma geom_ok_small ib bb : CacheArith.geom_ok ib bb -> geom_ok ib bb.
Proof. intros (H1 & H2 & H3). repeat split; lia. Qed.

Lemma bsize_div32 bb : 0 <= bb <= 30 -> 4294967296 = bsize bb * 2 ^ (30 - bb).
Proof.
  intros. unfold bsize. rewrite <- Z.pow_add_r by lia. replace (bb + 2 + (30 - bb)) with 32 by lia.
  reflexivity.
Qed.

Lemma decode_fields ib bb a : geom_ok ib bb ->
  let d := decode_addr ib bb a in
  let x := a mod 4294967296 in
  let q := x / bsize bb in
  da_full d = x /\ da_tag d = q / 2 ^ ib /\ da_idx d = q mod 2 ^ ib /\
  da_boff d = (x / 4) mod 2 ^ bb /\ da_byoff d = x mod 4 /\ da_balign d = q * bsize bb.
Proof.
  intros (Hib & Hbb & Hs). cbv zeta. unfold decode_addr.
  cbn [da_full da_tag da_idx da_boff da_byoff da_balign]. rewrite U32_eq.
  set (x := a mod 4294967296). unfold bsize.
  rewrite !shr_div, shl_mul by lia. rewrite !land_ones_mod by lia.
  change 3 with (2 ^ 2 - 1). rewrite land_ones_mod by lia. change (2 ^ 2) with 4.
  replace (2 + bb) with (bb + 2) by lia.
  repeat split.
  replace (ib + bb + 2) with ((bb + 2) + ib) by lia. rewrite Z.pow_add_r by lia.
  pose proof (p2pos (bb + 2)). pose proof (p2pos ib).
  rewrite Z.div_div by lia. reflexivity.
Qed.

Lemma decode_spec ib bb a : geom_ok ib bb ->
  let d := decode_addr ib bb a in
  let x := a mod 4294967296 in
  x = da_balign d + 4 * da_boff d + da_byoff d /\
  0 <= da_boff d < 2 ^ bb /\ 0 <= da_byoff d < 4 /\ 0 <= da_idx d < 2 ^ ib /\ 0 <= da_tag d /\
  da_balign d = (da_tag d * 2 ^ ib + da_idx d) * bsize bb /\
  0 <= da_balign d /\ da_balign d + bsize bb <= 4294967296 /\
  (16384 <= da_balign d -> 16384 <= x).
Proof.
  intros G. pose proof G as (Hib & Hbb & Hs). cbv zeta.
  destruct (decode_fields ib bb a G) as (_ & Ht & Hi & Hbo & Hby & Hba).
  rewrite Ht, Hi, Hbo, Hby, Hba. clear Ht Hi Hbo Hby Hba.
  set (x := a mod 4294967296). assert (Hx: 0 <= x < 4294967296) by (subst x; lia).
  pose proof (bsize_eq bb ltac:(lia)) as HB. pose proof (p2pos bb ltac:(lia)) as HP.
  pose proof (p2pos ib Hib) as HS.
  pose proof (bsize_div32 bb ltac:(lia)) as H32.
  pose proof (p2pos (30 - bb) ltac:(lia)) as HK2.
  set (B := bsize bb) in *. set (P := 2 ^ bb) in *. set (S := 2 ^ ib) in *.
  set (K2 := 2 ^ (30 - bb)) in *.
  assert (HBpos: 0 < B) by lia.
  pose proof (Z.div_mod x B ltac:(lia)) as Hdm. pose proof (Z.mod_pos_bound x B HBpos) as Hr.
  set (q := x / B) in *. set (r := x mod B) in *.
  assert (Hq: 0 <= q) by (subst q; apply Z.div_pos; lia).
  assert (Hx4: x / 4 = q * P + r / 4).
  { symmetry. apply (Z.div_unique x 4 (q * P + r / 4) (r mod 4)); [lia|].
    rewrite Hdm, HB. pose proof (Z.div_mod r 4 ltac:(lia)). lia. }
  assert (Hbo: (x / 4) mod P = r / 4).
  { rewrite Hx4. rewrite Z.add_comm, Z.mod_add by lia. apply Z.mod_small.
    split; [lia|]. apply Z.div_lt_upper_bound; lia. }
  assert (Hby: x mod 4 = r mod 4).
  { rewrite Hdm, HB. replace (4 * P * q + r) with (r + (P * q) * 4) by ring. apply Z.mod_add. lia. }
  rewrite Hbo, Hby.
  repeat split; try lia.
  - apply Z.div_pos; lia.
  - assert (q < K2) by nia. nia.
Qed.

(* for bbits <= 12 the converse holds too (as in CacheArith.v) *)
Lemma decode_small ib bb a : geom_ok ib bb -> bb <= 12 ->
  16384 <= a mod 4294967296 -> 16384 <= da_balign (decode_addr ib bb a).
Proof.
  intros G Hb Hx. assert (G' : CacheArith.geom_ok ib bb) by (destruct G as (A & B & C); repeat split; lia).
  destruct (CacheArith.decode_spec ib bb a G') as (_ & _ & _ & _ & _ & _ & _ & _ & H). apply H. exact Hx.
Qed.

Lemma same_block_iff ib bb a a' : geom_ok ib bb ->
  let d := decode_addr ib bb a in let d' := decode_addr ib bb a' in
  (da_tag d = da_tag d' /\ da_idx d = da_idx d') <-> da_balign d = da_balign d'.
Proof.
  intros G. cbv zeta.
  destruct (decode_spec ib bb a G) as (_ & _ & _ & Hi & Ht & Hba & _).
  destruct (decode_spec ib bb a' G) as (_ & _ & _ & Hi' & Ht' & Hba' & _).
  destruct G as (Hib & Hbb & Hs).
  pose proof (bsize_pos bb ltac:(lia)) as HB. pose proof (p2pos ib Hib) as HS.
  rewrite Hba, Hba'. set (B := bsize bb) in *. set (S := 2 ^ ib) in *.
  generalize dependent (da_tag (decode_addr ib bb a)). intros t Ht.
  generalize dependent (da_tag (decode_addr ib bb a')). intros t' Ht'.
  generalize dependent (da_idx (decode_addr ib bb a)). intros i Hi.
  generalize dependent (da_idx (decode_addr ib bb a')). intros i' Hi'.
  split.
  - intros [-> ->]. reflexivity.
  - intros E. assert (E2: t * S + i = t' * S + i') by nia.
    assert (t = t') by nia. subst t'. split; [reflexivity | lia].
Qed.

Lemma in_block_iff ib bb a a' : geom_ok ib bb ->
  let d := decode_addr ib bb a in let d' := decode_addr ib bb a' in
  let x' := a' mod 4294967296 in
  (da_balign d <= x' < da_balign d + bsize bb) <-> da_balign d' = da_balign d.
Proof.
  intros G. cbv zeta.
  destruct (decode_spec ib bb a G) as (_ & _ & _ & Hi & Ht & Hba & _).
  destruct (decode_spec ib bb a' G) as (Hx' & Hbo' & Hby' & Hi' & Ht' & Hba' & _).
  destruct G as (Hib & Hbb & Hs).
  pose proof (bsize_pos bb ltac:(lia)) as HB. pose proof (bsize_eq bb ltac:(lia)) as HB4.
  pose proof (p2pos ib Hib) as HS. pose proof (p2pos bb ltac:(lia)) as HP.
  rewrite Hx'. rewrite Hba, Hba'. rewrite Hba' in Hx'.
  set (B := bsize bb) in *. set (S := 2 ^ ib) in *. set (P := 2 ^ bb) in *.
  set (Q := da_tag (decode_addr ib bb a) * S + da_idx (decode_addr ib bb a)) in *.
  set (Q' := da_tag (decode_addr ib bb a') * S + da_idx (decode_addr ib bb a')) in *.
  split.
  - intros H. assert (E: Q = Q') by nia. rewrite E. reflexivity.
  - intros E. rewrite <- E. lia.
Qed.

Lemma decode_same_word ib bb a j : geom_ok ib bb ->
  let d := decode_addr ib bb a in let d' := decode_addr ib bb (a mod 4294967296 + j) in
  0 <= j -> da_byoff d + j < 4 ->
  (a mod 4294967296 + j) mod 4294967296 = a mod 4294967296 + j /\
  da_tag d' = da_tag d /\ da_idx d' = da_idx d /\ da_balign d' = da_balign d /\
  da_boff d' = da_boff d /\ da_byoff d' = da_byoff d + j.
Proof.
  intros G. cbv zeta. intros Hj Hlt.
  destruct (decode_spec ib bb a G) as (Hx & Hbo & Hby & _ & _ & _ & Hba0 & Hbahi & _).
  pose proof (bsize_eq bb ltac:(destruct G as (_ & ? & _); lia)) as HB4.
  assert (Hm: (a mod 4294967296 + j) mod 4294967296 = a mod 4294967296 + j).
  { apply Z.mod_small. lia. }
  destruct (decode_spec ib bb (a mod 4294967296 + j) G) as (Hx' & Hbo' & Hby' & _).
  rewrite Hm in Hx'.
  assert (Hba: da_balign (decode_addr ib bb (a mod 4294967296 + j)) = da_balign (decode_addr ib bb a)).
  { apply (in_block_iff ib bb a (a mod 4294967296 + j) G). rewrite Hm. lia. }
  pose proof (proj2 (same_block_iff ib bb (a mod 4294967296 + j) a G) Hba) as [Et Ei].
  repeat split; try assumption; lia.
Qed.
