(* Proofs/LiftRefine.v — the refinement theorem "five-stage pipeline = single-cycle machine" for
   every memory configuration: both machines run with the SAME data cache and instruction cache.
   The proof follows Proofs/PipeRefine.v: the flat invariant [Inv] relates the flattened pipeline
   to the flattened single-cycle state; the cached machines are tied to them by [sim]; the lemma
   [eok_rejects] shows that both cached machines reject the same accesses. *)
From Coq Require Import Lia ZifyBool Wf_nat.
From ArchSim Require Import Spec.RefCache.
From ArchSim Require Import Model.Base Model.Mem Model.Cache Model.Fmt Model.RV Model.Single
  Model.RVSplit Model.Pipe
  Proofs.WordLemmas Proofs.C01Mem Proofs.C01Step Proofs.SplitExec Proofs.C02Split Proofs.PipeLaws Proofs.PipeShape
  Proofs.PipeInv Proofs.PipeInvBase Proofs.PipeInvStages Proofs.PipeInvStraight Proofs.PipeInvControl
  Proofs.PipeInvEcall Proofs.PipeRefine
  Proofs.CacheArith Proofs.CacheInv Proofs.C03Proofs
  Proofs.LiftFlat Proofs.LiftAccess Proofs.LiftSim Proofs.LiftEcall Proofs.LiftSingle Proofs.LiftPipe
  Proofs.LiftPipeRun Proofs.LiftRefineBase.
Open Scope Z_scope.
Ltac Zify.zify_post_hook ::= Z.to_euclidean_division_equations.
Local Arguments Z.mul : simpl never.
Local Arguments Z.add : simpl never.
Local Arguments Z.sub : simpl never.
Local Arguments Z.of_nat : simpl never.

(** * Vocabulary of the theorem *)
Definition agree_log (p : pstate) (s : st) : Prop :=
  regs (pst p) = regs s /\ out (pst p) = out s /\ exitc (pst p) = exitc s /\
  bcount (pst p) = bcount s /\ pcount (pst p) = pcount s /\ icount (pst p) = icount s /\
  forall a, 0 <= a < 4294967296 -> ms_logical (ms (pst p)) a = ms_logical (ms s) a.
Definition fault_agree (p : pstate) (s : st) : Prop :=
  regs (pst p) = regs s /\ out (pst p) = out s /\
  forall a, 0 <= a < 4294967296 -> ms_logical (ms (pst p)) a = ms_logical (ms s) a.
(* f is the record of a word-crossing access rejected by a data cache of configuration g *)
Definition rejection_record (g : mcfg) (f : fault) : Prop :=
  exists s0, rejects g (f_instr f) s0 = Some (f_err f).

Definition goalc (n : nat) (sc : st) (pc : pstate) : Prop :=
  match single_run n sc with
  | (s', Done) => exists c p', Z.of_nat c <= 5 * Z.of_nat n + mu4 pc /\
      pipe_run c pc = (p', PDone) /\ agree_log p' s' /\ pipe_trace c pc = single_trace n sc
  | (s', Faulted f) => exists c p', Z.of_nat c <= 5 * Z.of_nat n + mu4 pc + 1 /\
      pipe_run c pc = (p', PFaulted f) /\
      (fault_agree p' s' \/ rejection_record (ms_cfg (ms sc)) f)
  | (_, OutOfFuel) => True
  end.

(* the slot in latch 3 has passed the MEM stage of the cached pipeline without being rejected *)
Definition NR (pf : pstate) (sc : st) : Prop :=
  nonempty (lat_at (lat pf) 3) = true -> snd (single_pipeline_step sc) = None.

Record J (pc pf : pstate) (sc sf : st) : Prop := mkJ {
  j_ps : sim (pst pc) (pst pf);
  j_pf : pf = with_pst pc (pst pf);
  j_ss : sim sc sf;
  j_nr : NR pf sc;
  j_cfg : ms_cfg (ms (pst pc)) = ms_cfg (ms sc) }.

(** * Helpers *)
Lemma sims_logical s1 t1 s2 t2 : sim s1 t1 -> sim s2 t2 -> ms t1 = ms t2 ->
  forall a, 0 <= a < 4294967296 -> ms_logical (ms s1) a = ms_logical (ms s2) a.
Proof.
  intros S1 S2 E a Ha. destruct (sm_mem _ _ S1) as (_ & f1 & E1 & _ & H1).
  destruct (sm_mem _ _ S2) as (_ & f2 & E2 & _ & H2). rewrite E1, E2 in E. injection E as ->.
  rewrite <- (H1 a Ha), <- (H2 a Ha). reflexivity.
Qed.

Lemma agree_transfer pc pf sc sf : sim (pst pc) (pst pf) -> sim sc sf -> arch_agree pf sf -> agree_log pc sc.
Proof.
  intros Sp Ss (Hr & Hm & Ho & He & Hb & Hp & Hi). unfold agree_log.
  rewrite (sm_regs _ _ Sp), (sm_regs _ _ Ss), (sm_out _ _ Sp), (sm_out _ _ Ss), (sm_exit _ _ Sp), (sm_exit _ _ Ss),
    (sm_bc _ _ Sp), (sm_bc _ _ Ss), (sm_pcn _ _ Sp), (sm_pcn _ _ Ss), (sm_ic _ _ Sp), (sm_ic _ _ Ss).
  repeat (split; [assumption|]). apply (sims_logical _ _ _ _ Sp Ss Hm).
Qed.

(* a non-faulting cached step over a non-faulting flat step *)
Lemma nr_step sc sf : sim sc sf -> snd (single_pipeline_step sf) = None ->
  snd (single_pipeline_step sc) = None ->
  single_pipeline_step sc = (nxt sc, None) /\ sim (nxt sc) (nxt sf) /\
  ms_cfg (ms (nxt sc)) = ms_cfg (ms sc).
Proof.
  intros S Hf Hc. unfold nxt. destruct (single_pipeline_step sc) as [s1 of] eqn:Hs. cbn [fst snd] in *. subst of.
  destruct (sim_single_step sc sf s1 None S Hs) as (t1 & of' & Ht & Hcfg & Hres).
  rewrite Ht in Hf |- *. cbn [fst snd] in *. subst of'.
  split; [reflexivity|]. split; [|exact Hcfg].
  destruct (instr_at (prog (im sc)) (pc sc)); [destruct (rejects _ _ _)|]; try tauto.
  destruct Hres as [E _]. discriminate.
Qed.

Lemma mu4_with_pst p t : mu4 (with_pst p t) = mu4 p.
Proof. reflexivity. Qed.

Section RefineC.
Variable P : list instr.
Hypothesis Hsup : Forall (fun i => supported i = true) P.

Lemma j_done pc pf sc sf : J pc pf sc sf -> pipe_done pc = pipe_done pf.
Proof. intros HJ. rewrite (j_pf _ _ _ _ HJ). symmetry. apply sim_pipe_done. apply (j_ps _ _ _ _ HJ). Qed.

Lemma j_mu pc pf sc sf : J pc pf sc sf -> mu4 pf = mu4 pc.
Proof. intros HJ. rewrite (j_pf _ _ _ _ HJ). reflexivity. Qed.

Lemma donec n sc sf pc pf : J pc pf sc sf -> Inv P pf sf -> single_done sc = true -> goalc n sc pc.
Proof.
  intros HJ (l0 & l1 & l2 & l3 & l4 & dead & I) Hd. unfold goalc.
  destruct (single_run_done n sc Hd) as [-> ->].
  assert (Hdf : single_done sf = true) by (rewrite <- (sim_single_done _ _ (j_ss _ _ _ _ HJ)); exact Hd).
  destruct (done_empty P _ _ _ _ _ _ _ _ I Hdf) as [-> ->].
  pose proof (mu4_bounds pf (iv_shape _ _ _ _ _ _ _ _ _ I)) as Hmu. rewrite (j_mu _ _ _ _ HJ) in Hmu.
  exists 0%nat, pc. split; [lia|].
  split; [cbn [pipe_run]; rewrite (j_done _ _ _ _ HJ), (done_iff P _ _ _ _ _ _ _ _ I), Hdf; reflexivity|].
  split; [|reflexivity].
  apply (agree_transfer pc pf sc sf (j_ps _ _ _ _ HJ) (j_ss _ _ _ _ HJ)). eapply inv_empty_agree; eauto.
Qed.

(* one cached pipeline step over a non-faulting flat step without MEM input *)
Lemma exitingc n sc sf pc pf : J pc pf sc sf -> Exiting P pf sf -> goalc n sc pc.
Proof.
  intros HJ E. pose proof E as (l0 & x3 & l4 & Hl & Sh & _ & Hst & _).
  destruct (exiting_step P Hsup pf sf E) as (Hpd & Hsd & Hss & Hsd' & pf' & Hps & Hpd' & Hag & Htr).
  pose proof (mu4_bounds pf Sh) as Hmu. rewrite (j_mu _ _ _ _ HJ) in Hmu. unfold goalc.
  pose proof (j_ss _ _ _ _ HJ) as Ss.
  assert (Hsdc : single_done sc = false) by (rewrite (sim_single_done _ _ Ss); exact Hsd).
  destruct n as [|k]; [cbn [single_run]; rewrite Hsdc; exact Logic.I|].
  assert (Hnr : snd (single_pipeline_step sc) = None).
  { apply (j_nr _ _ _ _ HJ). rewrite Hl. reflexivity. }
  destruct (nr_step sc sf Ss ltac:(rewrite Hss; reflexivity) Hnr) as (Hsc & Ss' & _).
  destruct (single_run_step k sc _ Hsdc Hsc) as [-> ->].
  assert (Hsdc' : single_done (nxt sc) = true) by (rewrite (sim_single_done _ _ Ss'); exact Hsd').
  destruct (single_run_done k (nxt sc) Hsdc') as [-> ->].
  (* the cached pipeline step *)
  destruct (pipe_step pc) as [pc' ofc] eqn:Hpsc.
  destruct (sim_pipe_step pc (pst pf) pc' ofc (j_ps _ _ _ _ HJ) Hpsc) as [_ [(t' & of' & Hpf & Sa & Eo & _ & _)|Hrej]].
  2:{ exfalso. destruct Hrej as (z & e & Hz & _). rewrite (j_pf _ _ _ _ HJ) in Hl, Hst. cbn [with_pst lat stalled] in Hl, Hst.
      unfold mem_input, regs_for in Hz. rewrite Hst, Hl in Hz. discriminate Hz. }
  rewrite <- (j_pf _ _ _ _ HJ), Hps in Hpf. injection Hpf as Hpf' <-. cbn [option_map] in Eo. subst ofc.
  assert (Hpdc : pipe_done pc = false) by (rewrite (j_done _ _ _ _ HJ); exact Hpd).
  exists 1%nat, pc'. split; [lia|].
  destruct (pipe_run_step 0 pc pc' Hpdc Hpsc) as [-> ->]. cbn [pipe_run pipe_trace].
  assert (Hpdc' : pipe_done pc' = true).
  { rewrite <- Hpd', Hpf'. symmetry. apply sim_pipe_done. exact Sa. }
  rewrite Hpdc'. split; [reflexivity|]. split.
  - apply (agree_transfer pc' pf' (nxt sc) (nxt sf)); [rewrite Hpf'; exact Sa | exact Ss' | exact Hag].
  - assert (El : lat pc' = lat pf') by (rewrite Hpf'; reflexivity). rewrite El, Htr, (sm_pc _ _ Ss). reflexivity.
Qed.

(** * The cached single-cycle step at a state simulated by t, by outcome *)
Lemma cstep_reject sc' t i e : sim sc' t -> instr_at (prog (im t)) (pc t) = Some i ->
  rejects (ms_cfg (ms sc')) i sc' = Some e ->
  exists s1, single_pipeline_step sc' = (s1, Some (mkfault (pc t) i e)).
Proof.
  intros S Hi Hr. destruct (single_pipeline_step sc') as [s1 of] eqn:Hs.
  destruct (sim_single_step sc' t s1 of S Hs) as (t1 & of' & _ & _ & Hres).
  rewrite (sm_prog _ _ S), (sm_pc _ _ S), Hi, Hr in Hres. destruct Hres as [-> _].
  exists s1. reflexivity.
Qed.

Lemma cstep_fault sc' t i tm ff : sim sc' t -> instr_at (prog (im t)) (pc t) = Some i ->
  rejects (ms_cfg (ms sc')) i sc' = None -> single_pipeline_step t = (tm, Some ff) ->
  exists s1, single_pipeline_step sc' = (s1, Some (fmap (ms_cfg (ms sc')) ff)) /\ sim s1 tm.
Proof.
  intros S Hi Hr Ht. destruct (single_pipeline_step sc') as [s1 of] eqn:Hs.
  destruct (sim_single_step sc' t s1 of S Hs) as (t1 & of' & Ht' & _ & Hres).
  rewrite Ht in Ht'. injection Ht' as <- <-.
  rewrite (sm_prog _ _ S), (sm_pc _ _ S), Hi, Hr in Hres. destruct Hres as [-> S1].
  exists s1. split; [reflexivity | exact S1].
Qed.

Lemma cstep_ok sc' t : sim sc' t -> snd (single_pipeline_step t) = None ->
  (forall i, instr_at (prog (im t)) (pc t) = Some i -> rejects (ms_cfg (ms sc')) i sc' = None) ->
  snd (single_pipeline_step sc') = None.
Proof.
  intros S Ht Hr. destruct (single_pipeline_step sc') as [s1 of] eqn:Hs.
  destruct (sim_single_step sc' t s1 of S Hs) as (t1 & of' & Ht' & _ & Hres).
  rewrite Ht' in Ht. cbn [snd] in *. subst of'.
  rewrite (sm_prog _ _ S), (sm_pc _ _ S) in Hres.
  destruct (instr_at (prog (im t)) (pc t)) as [i|]; [|tauto].
  rewrite (Hr i eq_refl) in Hres. tauto.
Qed.

Lemma rejects_access g i s e t : rejects g i s = Some e -> access_of i t <> None.
Proof.
  intros H. destruct i; try (rewrite rejects_noaccess in H by reflexivity; discriminate); discriminate.
Qed.

(** * The cached single-cycle state aligned with [adv l3 sf] *)
Lemma aligned qc qf sc sf l0 l1 l2 l3 l4 dead :
  InvAt P qf sf l0 l1 l2 l3 l4 dead -> J qc qf sc sf ->
  exists sc', sim sc' (adv l3 sf) /\ ms_cfg (ms sc') = ms_cfg (ms sc) /\
    match l3 with
    | Some x3 => single_pipeline_step sc = (sc', None) /\ single_pipeline_step sf = (nxt sf, None) /\
                 sl_addr x3 = pc sf
    | None => sc' = sc
    end /\
    wf (adv l3 sf) /\ prog (im (adv l3 sf)) = P /\
    (forall z, mem_input qc = Some z ->
       instr_at P (pc (adv l3 sf)) = Some (sl_instr z) /\ sl_addr z = pc (adv l3 sf) /\
       exitc (adv l3 sf) = None /\
       slot_rejects (ms_cfg (ms (pst qc))) z = rejects (ms_cfg (ms sc')) (sl_instr z) sc').
Proof.
  intros I HJ. pose proof (j_ss _ _ _ _ HJ) as Ss. pose proof (iv_shape _ _ _ _ _ _ _ _ _ I) as Sh.
  assert (Hal : exists sc', sim sc' (adv l3 sf) /\ ms_cfg (ms sc') = ms_cfg (ms sc) /\
            match l3 with
            | Some x3 => single_pipeline_step sc = (sc', None) /\ single_pipeline_step sf = (nxt sf, None) /\
                         sl_addr x3 = pc sf
            | None => sc' = sc
            end).
  { destruct l3 as [x3|] eqn:El3.
    - destruct (iv_l3 _ _ _ _ _ _ _ _ _ I) as (_ & (_ & Ha & _) & _ & Hok & _).
      assert (Hs3 : single_pipeline_step sf = (nxt sf, None)).
      { unfold nxt. destruct (single_pipeline_step sf) as [s' o]. cbn [snd fst] in *. rewrite Hok. reflexivity. }
      assert (Hnr : snd (single_pipeline_step sc) = None).
      { apply (j_nr _ _ _ _ HJ). rewrite (iv_lat _ _ _ _ _ _ _ _ _ I). reflexivity. }
      destruct (nr_step sc sf Ss ltac:(rewrite Hs3; reflexivity) Hnr) as (E1 & E2 & E3).
      exists (nxt sc). cbn [adv nonempty]. split; [exact E2|]. split; [exact E3|].
      split; [exact E1|]. split; [exact Hs3 | exact Ha].
    - exists sc. cbn [adv nonempty]. split; [exact Ss|]. split; reflexivity. }
  destruct Hal as (sc' & Ss' & Hcfgs & Hsc'). exists sc'.
  split; [exact Ss'|]. split; [exact Hcfgs|]. split; [exact Hsc'|].
  assert (HW : prog (im (adv l3 sf)) = P /\ wf (adv l3 sf)).
  { apply adv_prog; [exact (iv_progs _ _ _ _ _ _ _ _ _ I) | exact (iv_wf _ _ _ _ _ _ _ _ _ I)|].
    pose proof (iv_l3 _ _ _ _ _ _ _ _ _ I) as L3. destruct l3 as [x3|]; [|exact Logic.I].
    destruct L3 as (_ & Hon & _). exact Hon. }
  destruct HW as [HP W]. split; [exact W|]. split; [exact HP|].
  intros z Hz.
  assert (Hz' : mem_input qf = Some z) by (rewrite (j_pf _ _ _ _ HJ); exact Hz).
  pose proof (mem_input_l2 qf z Sh Hz') as H2. rewrite (iv_lat _ _ _ _ _ _ _ _ _ I) in H2.
  change (lat_at [l0; l1; l2; l3; l4] 2) with l2 in H2. subst l2.
  pose proof (iv_l2 _ _ _ _ _ _ _ _ _ I) as L2. cbn [lv] in L2.
  destruct (L2 Logic.I) as (_ & (Hex & Ha & Hi) & He & _).
  split; [exact Hi|]. split; [exact Ha|]. split; [exact Hex|].
  rewrite (j_cfg _ _ _ _ HJ), <- Hcfgs. apply (eok_rejects _ (adv l3 sf)); [exact He | apply (sm_regs _ _ Ss')].
Qed.

(** * The simulation *)
Lemma sim4c n : forall sc sf qc qf, J qc qf sc sf -> Inv P qf sf -> goalc n sc qc.
Proof.
  induction n as [|k IHk]; intros sc sf qc qf HJ Hinv.
  { destruct (single_done sc) eqn:Hd; [eapply donec; eassumption|].
    unfold goalc. cbn [single_run]. rewrite Hd. exact Logic.I. }
  remember (Z.to_nat (mu4 qc)) as m eqn:Hm. revert qc qf HJ Hinv Hm.
  induction m as [m IHm] using lt_wf_ind. intros qc qf HJ Hinv Hm.
  destruct (single_done sc) eqn:Hd; [eapply donec; eassumption|].
  destruct Hinv as (l0 & l1 & l2 & l3 & l4 & dead & I).
  pose proof (iv_shape _ _ _ _ _ _ _ _ _ I) as Sh. pose proof (mu4_bounds qf Sh) as Hmu.
  rewrite (j_mu _ _ _ _ HJ) in Hmu.
  pose proof (j_ss _ _ _ _ HJ) as Ss. pose proof (j_ps _ _ _ _ HJ) as Sp.
  assert (Hdf : single_done sf = false) by (rewrite <- (sim_single_done _ _ Ss); exact Hd).
  assert (Hpd : pipe_done qf = false) by (rewrite (done_iff P _ _ _ _ _ _ _ _ I); exact Hdf).
  assert (Hpdc : pipe_done qc = false) by (rewrite (j_done _ _ _ _ HJ); exact Hpd).
  pose proof (inv_step_e P Hsup _ _ _ _ _ _ _ _ I Hpd) as Hstep. unfold step_goal in Hstep.
  destruct (aligned qc qf sc sf _ _ _ _ _ _ I HJ) as (sc' & Ss' & Hcfgs & Hsc' & W' & HP' & HL2).
  set (tf := adv l3 sf) in *.
  assert (Hg : ms_cfg (ms (pst qc)) = ms_cfg (ms sc')) by (rewrite (j_cfg _ _ _ _ HJ), Hcfgs; reflexivity).
  (* the run of the cached single-cycle machine, through sc' *)
  assert (Hrun : forall j, single_run (S j) sc =
            match l3 with Some _ => single_run j sc' | None => single_run (S j) sc' end).
  { intros j. destruct l3; [|subst sc'; reflexivity]. destruct Hsc' as (E & _).
    apply (single_run_step j sc sc' Hd E). }
  destruct (pipe_step qc) as [qc' ofc] eqn:Hpsc.
  destruct (sim_pipe_step qc (pst qf) qc' ofc Sp Hpsc) as [Hcfg' [(t' & of' & Hpf & Sa & Eo & Htag & Hnrj)|Hrej]].
  2:{ (* the cached pipeline rejects the access of the slot in MEM *)
    destruct Hrej as (z & e & Hz & Hr & ->). destruct (HL2 z Hz) as (Hi & Ha & Hex & HK).
    rewrite <- HP' in Hi. rewrite HK in Hr.
    destruct (cstep_reject sc' tf _ e Ss' Hi Hr) as [s1 Hs1]. rewrite <- Ha in Hs1.
    assert (Hdn : single_done sc' = false).
    { rewrite (sim_single_done _ _ Ss'). unfold single_done, has_instr. rewrite Hex, Hi. reflexivity. }
    assert (Hfin : forall j, match single_run (S j) sc' with
              | (s', Faulted f) => exists c p', Z.of_nat c <= 1 /\
                  pipe_run c qc = (p', PFaulted f) /\ (fault_agree p' s' \/ rejection_record (ms_cfg (ms sc)) f)
              | _ => False end).
    { intros j. rewrite (single_run_fault j sc' s1 _ Hdn Hs1). exists 1%nat, qc'. split; [lia|].
      split; [apply pipe_run_fault; assumption|]. right. exists sc'. cbn [f_instr f_err mkfault].
      rewrite <- Hcfgs. exact Hr. }
    unfold goalc. rewrite Hrun. destruct l3 as [x3|].
    - destruct k as [|k']; [cbn [single_run]; rewrite Hdn; exact Logic.I|].
      specialize (Hfin k'). destruct (single_run (S k') sc') as [s' [|f|]]; try contradiction.
      destruct Hfin as (c & p' & Hc & R & A). exists c, p'. split; [lia|]. split; assumption.
    - specialize (Hfin k). destruct (single_run (S k) sc') as [s' [|f|]]; try contradiction.
      destruct Hfin as (c & p' & Hc & R & A). exists c, p'. split; [lia|]. split; assumption. }
  rewrite <- (j_pf _ _ _ _ HJ) in Hpf. rewrite Hpf in Hstep.
  destruct of' as [ff|]; cbn [option_map] in Eo; subst ofc.
  - (* both pipelines fault *)
    destruct Hstep as (tm & Hss & Hnd & Hr & Hms & Ho). cbn [pst with_pst] in Hr, Hms, Ho.
    assert (Hdn : single_done sc' = false) by (rewrite (sim_single_done _ _ Ss'); exact Hnd).
    assert (Hii : exists i, instr_at (prog (im tf)) (pc tf) = Some i).
    { unfold single_done, has_instr in Hnd. destruct (exitc tf); [discriminate|].
      destruct (instr_at (prog (im tf)) (pc tf)) as [i|]; [exists i; reflexivity | discriminate]. }
    destruct Hii as [i Hi].
    assert (Hnrej : rejects (ms_cfg (ms sc')) i sc' = None).
    { destruct (rejects (ms_cfg (ms sc')) i sc') as [e|] eqn:Er; [exfalso|reflexivity].
      destruct (flat_ldst_fault tf i tm ff W' Hi (rejects_access _ _ _ _ tf Er) Hss) as (Hfi & _ & x & lo & hi & b & Hfe).
      destruct (Htag ff eq_refl) as [E7|[Eec|(z & Hz & Hzr)]].
      - rewrite Hfe in E7. discriminate.
      - rewrite Hfi in Eec. rewrite Eec in Er. rewrite rejects_noaccess in Er by reflexivity. discriminate.
      - destruct (HL2 z Hz) as (Hi2 & _ & _ & HK). rewrite <- HP', Hi in Hi2. injection Hi2 as ->.
        rewrite HK, Er in Hzr. discriminate. }
    destruct (cstep_fault sc' tf i tm ff Ss' Hi Hnrej Hss) as (s1 & Hs1 & S1).
    assert (Hfin : forall j, match single_run (S j) sc' with
              | (s', Faulted f) => exists c p', Z.of_nat c <= 1 /\
                  pipe_run c qc = (p', PFaulted f) /\ (fault_agree p' s' \/ rejection_record (ms_cfg (ms sc)) f)
              | _ => False end).
    { intros j. rewrite (single_run_fault j sc' s1 _ Hdn Hs1). exists 1%nat, qc'. split; [lia|].
      split; [rewrite <- Hg; apply pipe_run_fault; assumption|]. left. unfold fault_agree.
      rewrite (sm_regs _ _ Sa), (sm_out _ _ Sa), (sm_regs _ _ S1), (sm_out _ _ S1).
      split; [exact Hr|]. split; [exact Ho|]. apply (sims_logical _ _ _ _ Sa S1 Hms). }
    unfold goalc. rewrite Hrun. destruct l3 as [x3|].
    + destruct k as [|k']; [cbn [single_run]; rewrite Hdn; exact Logic.I|].
      specialize (Hfin k'). destruct (single_run (S k') sc') as [s' [|f|]]; try contradiction.
      destruct Hfin as (c & p' & Hc & R & A). exists c, p'. split; [lia|]. split; assumption.
    + specialize (Hfin k). destruct (single_run (S k) sc') as [s' [|f|]]; try contradiction.
      destruct Hfin as (c & p' & Hc & R & A). exists c, p'. split; [lia|]. split; assumption.
  - (* no fault *)
    destruct Hstep as (Hinv' & Hl4 & Hmu').
    set (qf' := with_pst qc' t') in *.
    assert (NR' : NR qf' sc').
    { intros Hne. destruct (lat_at (lat qf') 3) as [y|] eqn:Hy; [|discriminate].
      assert (Hokf : snd (single_pipeline_step tf) = None).
      { destruct Hinv' as [(m0 & m1 & m2 & m3 & m4 & dd & I')|E'].
        - rewrite (iv_lat _ _ _ _ _ _ _ _ _ I') in Hy. change (lat_at [m0; m1; m2; m3; m4] 3) with m3 in Hy. subst m3.
          destruct (iv_l3 _ _ _ _ _ _ _ _ _ I') as (_ & _ & _ & Hok & _). exact Hok.
        - destruct E' as (a0 & x3 & a4 & _ & _ & _ & _ & _ & _ & _ & _ & _ & _ & Hok & _). exact Hok. }
      apply (cstep_ok sc' tf Ss' Hokf). intros i Hi.
      destruct (pipe_step_mem_input qf qf' y Hpf Hy) as [z Hz]. rewrite (j_pf _ _ _ _ HJ) in Hz.
      change (mem_input (with_pst qc (pst qf))) with (mem_input qc) in Hz.
      destruct (HL2 z Hz) as (Hi2 & _ & _ & HK). rewrite <- HP', Hi in Hi2. injection Hi2 as ->.
      rewrite <- HK. apply (Hnrj eq_refl z Hz). }
    assert (HJ' : J qc' qf' sc' tf).
    { constructor; [exact Sa | reflexivity | exact Ss' | exact NR' | rewrite Hcfg'; exact Hg]. }
    assert (Hboth : forall j, (Inv P qf' tf -> goalc j sc' qc') -> goalc j sc' qc' /\ 0 <= mu4 qc' <= 4).
    { intros j Hrec. destruct Hinv' as [Hq|Hq].
      - split; [apply Hrec; exact Hq|]. destruct Hq as (? & ? & ? & ? & ? & ? & Iq).
        change (mu4 qc') with (mu4 qf'). apply mu4_bounds. apply (iv_shape _ _ _ _ _ _ _ _ _ Iq).
      - split; [apply (exitingc j sc' tf qc' qf' HJ' Hq)|]. destruct Hq as (? & ? & ? & _ & Shq & _).
        change (mu4 qc') with (mu4 qf'). apply mu4_bounds. exact Shq. }
    assert (El4 : lat_at (lat qc') 4 = option_map wb_slot l3) by exact Hl4.
    unfold goalc. rewrite Hrun. destruct l3 as [x3|]; cbn [option_map] in *.
    + destruct Hsc' as (Hs & Hs3 & Ha3).
      destruct (Hboth k (fun Hq => IHk sc' tf qc' qf' HJ' Hq)) as [Hrec Hmu4].
      unfold goalc in Hrec. destruct (single_run_step k sc sc' Hd Hs) as [_ Etr]. rewrite Etr.
      destruct (single_run k sc') as [s' [|f|]]; [| |exact Logic.I].
      * destruct Hrec as (c & p'' & Hc & Hrunp & Hag & Htr). exists (S c), p''.
        destruct (pipe_run_step c qc qc' Hpdc Hpsc) as [-> ->]. rewrite El4. cbn [some_addr wb_slot sl_addr app].
        split; [lia|]. split; [exact Hrunp|]. split; [exact Hag|]. rewrite Htr, Ha3, (sm_pc _ _ Ss). reflexivity.
      * destruct Hrec as (c & p'' & Hc & Hrunp & Hag). exists (S c), p''.
        destruct (pipe_run_step c qc qc' Hpdc Hpsc) as [-> _]. split; [lia|]. split; [exact Hrunp|].
        rewrite <- Hcfgs. exact Hag.
    + subst sc'. specialize (Hmu' eq_refl). rewrite (j_mu _ _ _ _ HJ) in Hmu'. change (mu4 qf') with (mu4 qc') in Hmu'.
      assert (Hrec : goalc (S k) sc qc' /\ 0 <= mu4 qc' <= 4).
      { apply Hboth. intros Hq. apply (IHm (Z.to_nat (mu4 qc'))) with (qf := qf'); [|exact HJ'|exact Hq|reflexivity].
        destruct Hq as (? & ? & ? & ? & ? & ? & Iq).
        pose proof (mu4_bounds qf' (iv_shape _ _ _ _ _ _ _ _ _ Iq)) as Hb. change (mu4 qf') with (mu4 qc') in Hb. lia. }
      destruct Hrec as [Hrec Hmu4]. unfold goalc in Hrec.
      destruct (single_run (S k) sc) as [s' [|f|]]; [| |exact Logic.I].
      * destruct Hrec as (c & p'' & Hc & Hrunp & Hag & Htr). exists (S c), p''.
        destruct (pipe_run_step c qc qc' Hpdc Hpsc) as [-> ->]. rewrite El4. cbn [some_addr app].
        split; [lia|]. split; [exact Hrunp|]. split; assumption.
      * destruct Hrec as (c & p'' & Hc & Hrunp & Hag). exists (S c), p''.
        destruct (pipe_run_step c qc qc' Hpdc Hpsc) as [-> _]. split; [lia|]. split; assumption.
Qed.

End RefineC.

(** * The refinement theorem for every memory configuration *)
(* [wf] of Proofs/C01Step.v with "flat memory, no instruction cache" replaced by the invariants of
   the data cache and the instruction cache *)
Definition cwf (s : st) : Prop :=
  wf_regs (regs s) /\ ms_ok (ms s) /\ IInv (im s) /\ -2097152 < pc s < 4294967296 /\
  Forall wf_instr (prog (im s)) /\ Z.of_nat (length (prog (im s))) <= 4096.

Lemma cwf_cache_ok s : cwf s -> cache_ok s.
Proof. intros (_ & Hm & Hi & _ & _ & Hl). split; [exact Hm|]. split; [exact Hi | lia]. Qed.

Lemma cwf_flatten s : cwf s -> wf (flatten s).
Proof.
  intros (Hr & Hm & Hi & Hpc & Hp & Hl). constructor; cbn [flatten regs ms im pc prog icc ms_lower]; try assumption.
  - apply ms_flat_bytes. exact Hm.
  - eexists. reflexivity.
  - reflexivity.
Qed.

Theorem pipe_refines_single_caches_lem s n :
  cwf s -> Forall (fun i => supported i = true) (prog (im s)) ->
  match single_run n s with
  | (s', Done) => exists c p, (c <= 8 * n + 8)%nat /\
      pipe_run c (pipe_init s true) = (p, PDone) /\ agree_log p s' /\
      pipe_trace c (pipe_init s true) = single_trace n s
  | (s', Faulted f) => exists c p, (c <= 8 * n + 8)%nat /\
      pipe_run c (pipe_init s true) = (p, PFaulted f) /\
      (fault_agree p s' \/ rejection_record (ms_cfg (ms s)) f)
  | (_, OutOfFuel) => True
  end.
Proof.
  intros HW HS. destruct (exitc s) as [c0|] eqn:Hex.
  - assert (Hd : single_done s = true) by (unfold single_done; rewrite Hex; reflexivity).
    destruct (single_run_done n s Hd) as [-> ->].
    exists 0%nat, (pipe_init s true). split; [lia|].
    split; [cbn [pipe_run]; unfold pipe_done; cbn [pipe_init pst]; rewrite Hex; reflexivity|].
    split; [unfold agree_log; cbn [pipe_init pst]; repeat split|reflexivity].
  - pose proof (sim_flatten s (cwf_cache_ok s HW)) as S0.
    assert (HJ : J (pipe_init s true) (pipe_init (flatten s) true) s (flatten s)).
    { constructor; [exact S0 | reflexivity | exact S0 | intros H; discriminate H | reflexivity]. }
    assert (Hinv : Inv (prog (im s)) (pipe_init (flatten s) true) (flatten s)).
    { apply inv_init; [apply cwf_flatten; exact HW | reflexivity | exact Hex]. }
    pose proof (sim4c (prog (im s)) HS n s (flatten s) _ _ HJ Hinv) as H. unfold goalc in H.
    assert (Hmu : mu4 (pipe_init s true) = 4) by reflexivity. rewrite Hmu in H.
    destruct (single_run n s) as [s' [|f|]]; [| |exact Logic.I].
    + destruct H as (c & p & Hc & Hrun & Hag & Htr). exists c, p. split; [lia|]. split; [exact Hrun|split; assumption].
    + destruct H as (c & p & Hc & Hrun & Hag). exists c, p. split; [lia|]. split; assumption.
Qed.
Print Assumptions pipe_refines_single_caches_lem.
