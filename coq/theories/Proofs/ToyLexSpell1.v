(* ToyLexSpell1.v — toy_load looks at a numeric literal only through toy_value:
   token lists that agree line by line up to the spelling of literals load identically. *)
From Coq Require Import Lia ZifyBool.
From ArchSim Require Import Model.Base Model.Mem Model.Fmt Model.Toy Proofs.C19Proofs.
Open Scope Z_scope.

(** * equivalence of token lines *)
Definition lit_eq (v1 v2 : str) : Prop := toy_value v1 = toy_value v2.
Definition opnd_equiv (p q : toperand) : Prop :=
  match p, q with
  | TAddrLit v1, TAddrLit v2 => lit_eq v1 v2
  | TLabel a, TLabel b => a = b
  | TNoOperand, TNoOperand => True
  | _, _ => False
  end.
Definition tl_equiv (x y : tline) : Prop :=
  match x, y with
  | TLDirective d1, TLDirective d2 => d1 = d2
  | TLVar n1 v1, TLVar n2 v2 => n1 = n2 /\ Forall2 lit_eq v1 v2
  | TLInstr i1 o1 p1, TLInstr i2 o2 p2 => i1 = i2 /\ o1 = o2 /\ opnd_equiv p1 p2
  | TLLabel a, TLLabel b => a = b
  | _, _ => False
  end.
(* same line numbers, equivalent token lines *)
Definition lrel (l1 l2 : list (Z * tline)) : Prop :=
  Forall2 (fun p q => fst p = fst q /\ tl_equiv (snd p) (snd q)) l1 l2.

Lemma Forall2_rev' {A} (R : A -> A -> Prop) l1 l2 : Forall2 R l1 l2 -> Forall2 R (rev l1) (rev l2).
Proof.
  induction 1 as [|x y l1 l2 Hxy _ IH]; [constructor|]. cbn [rev]. apply Forall2_app; [exact IH|].
  constructor; [exact Hxy | constructor].
Qed.

Lemma Forall2_length' {A} (R : A -> A -> Prop) l1 l2 : Forall2 R l1 l2 -> length l1 = length l2.
Proof. induction 1; [reflexivity | cbn [length]; f_equal; assumption]. Qed.

Lemma tl_equiv_dir x y : tl_equiv x y -> tdir_of x = tdir_of y.
Proof. destruct x, y; cbn [tl_equiv tdir_of]; try contradiction; try reflexivity. intros ->. reflexivity. Qed.

(** * segmentation *)
Lemma split_rel ln : forall l1 l2, lrel l1 l2 -> forall acc1 acc2, lrel acc1 acc2 ->
  lrel (fst (split_at_line tline ln l1 acc1)) (fst (split_at_line tline ln l2 acc2)) /\
  lrel (snd (split_at_line tline ln l1 acc1)) (snd (split_at_line tline ln l2 acc2)).
Proof.
  induction 1 as [|[k1 x1] [k2 x2] l1 l2 [Hk Hx] Hl IH]; intros acc1 acc2 Hacc; cbn [split_at_line fst snd].
  - split; [apply Forall2_rev'; exact Hacc | constructor].
  - cbn [fst snd] in Hk, Hx. subst k2. destruct (k1 =? ln).
    + cbn [fst snd]. split; [apply Forall2_rev'; exact Hacc | exact Hl].
    + apply IH. constructor; [split; [reflexivity | exact Hx] | exact Hacc].
Qed.

Definition seg_rel (r1 r2 : pres (list (Z * tline) * list (Z * tline))) : Prop :=
  match r1, r2 with
  | POk (d1, t1), POk (d2, t2) => lrel d1 d2 /\ lrel t1 t2
  | PErr e1, PErr e2 => e1 = e2
  | _, _ => False
  end.

Lemma segment_loop_rel : forall rest1 rest2, lrel rest1 rest2 -> forall de te d1 d2 t1 t2,
  lrel d1 d2 -> lrel t1 t2 ->
  seg_rel (segment_loop tline tdir_of rest1 de te d1 t1) (segment_loop tline tdir_of rest2 de te d2 t2).
Proof.
  induction 1 as [|[k1 x1] [k2 x2] l1 l2 [Hk Hx] Hl IH]; intros de te d1 d2 t1 t2 Hd Ht; cbn [segment_loop].
  - split; assumption.
  - cbn [fst snd] in Hk, Hx. subst k2. rewrite <- (tl_equiv_dir _ _ Hx).
    destruct (tdir_of x1) as [d|]; [|apply IH; assumption].
    destruct (d =? 1).
    + destruct de; [reflexivity|]. destruct (split_rel k1 t1 t2 Ht [] [] (Forall2_nil _)) as [Hb Ha].
      destruct (split_at_line tline k1 t1 []) as [b1 a1]. destruct (split_at_line tline k1 t2 []) as [b2 a2].
      cbn [fst snd] in Hb, Ha. apply IH; assumption.
    + destruct te; [reflexivity|]. destruct (split_rel k1 d1 d2 Hd [] [] (Forall2_nil _)) as [Hb Ha].
      destruct (split_at_line tline k1 d1 []) as [b1 a1]. destruct (split_at_line tline k1 d2 []) as [b2 a2].
      cbn [fst snd] in Hb, Ha. apply IH; assumption.
Qed.

Lemma segment_rel l1 l2 : lrel l1 l2 -> seg_rel (segment tdir_of l1) (segment tdir_of l2).
Proof.
  intros H. destruct H as [|[k1 x1] [k2 x2] l1 l2 [Hk Hx] Hl]; cbn [segment].
  - split; constructor.
  - cbn [fst snd] in Hk, Hx. subst k2. rewrite <- (tl_equiv_dir _ _ Hx).
    assert (Hall : lrel ((k1, x1) :: l1) ((k1, x2) :: l2)) by (constructor; [split; [reflexivity | exact Hx] | exact Hl]).
    destruct (tdir_of x1) as [[|[p|p|]|p]|]; apply segment_loop_rel; try assumption; constructor.
Qed.

(** * label pass *)
Lemma labels_rel : forall l1 l2, lrel l1 l2 -> forall pcv lb, toy_labels l1 pcv lb = toy_labels l2 pcv lb.
Proof.
  induction 1 as [|[k1 x1] [k2 x2] l1 l2 [Hk Hx] Hl IH]; intros pcv lb; [reflexivity|].
  cbn [fst snd] in Hk, Hx. subst k2.
  destruct x1 as [a|a va|ia oa pa|a], x2 as [b|b vb|ib ob pb|b]; cbn [tl_equiv] in Hx; try contradiction; cbn [toy_labels].
  - apply IH.
  - apply IH.
  - destruct Hx as (<- & _ & _). destruct ia as [n|]; [|apply IH].
    destruct (add_label lb n pcv k1); [apply IH | reflexivity].
  - subst b. destruct (add_label lb a pcv k1); [apply IH | reflexivity].
Qed.

(** * data pass *)
Lemma write_vals_rel c ln : forall v1 v2, Forall2 lit_eq v1 v2 -> forall m a,
  toy_write_vals c m a v1 ln = toy_write_vals c m a v2 ln.
Proof.
  induction 1 as [|x y v1 v2 Hxy _ IH]; intros m a; [reflexivity|]. cbn [toy_write_vals]. unfold lit_eq in Hxy. rewrite <- Hxy.
  destruct (toy_value x) as [z|]; [|reflexivity]. destruct (mem_write c m 16 a (U16 z)) as [m' [e|]]; [reflexivity | apply IH].
Qed.
Lemma write_data_rel c : forall d1 d2, lrel d1 d2 -> forall last lb m,
  toy_write_data c d1 last lb m = toy_write_data c d2 last lb m.
Proof.
  induction 1 as [|[k1 x1] [k2 x2] l1 l2 [Hk Hx] Hl IH]; intros last lb m; [reflexivity|].
  cbn [fst snd] in Hk, Hx. subst k2.
  destruct x1 as [a|a va|ia oa pa|a], x2 as [b|b vb|ib ob pb|b]; cbn [tl_equiv] in Hx; try contradiction;
    cbn [toy_write_data]; try reflexivity.
  destruct Hx as [<- Hv]. rewrite <- (Forall2_length' _ _ _ Hv).
  destruct (last - Z.of_nat (length va) + 1 <? 0); [reflexivity|].
  destruct (add_label lb a (last - Z.of_nat (length va) + 1) k1); [|reflexivity].
  rewrite (write_vals_rel c k1 va vb Hv). destruct (toy_write_vals c m _ vb k1); [apply IH | reflexivity].
Qed.

(** * instantiation *)
Lemma instantiate_rel : forall t1 t2, lrel t1 t2 -> forall lb, toy_instantiate t1 lb = toy_instantiate t2 lb.
Proof.
  induction 1 as [|[k1 x1] [k2 x2] l1 l2 [Hk Hx] Hl IH]; intros lb; [reflexivity|].
  cbn [fst snd] in Hk, Hx. subst k2.
  destruct x1 as [a|a va|ia oa pa|a], x2 as [b|b vb|ib ob pb|b]; cbn [tl_equiv] in Hx; try contradiction;
    cbn [toy_instantiate]; try apply IH; try reflexivity.
  destruct Hx as (_ & <- & Hp). rewrite (IH lb).
  destruct pa as [v1|la|], pb as [v2|lb2|]; cbn [opnd_equiv] in Hp; try contradiction.
  - unfold lit_eq in Hp. rewrite Hp. reflexivity.
  - subst lb2. reflexivity.
  - reflexivity.
Qed.

(** * the loader *)
Theorem toy_load_rel s toks1 toks2 : lrel toks1 toks2 -> toy_load s toks1 = toy_load s toks2.
Proof.
  intros H. rewrite !toy_load_unfold. cbv zeta. pose proof (segment_rel _ _ H) as Hs.
  destruct (segment tdir_of toks1) as [[d1 t1]|e1], (segment tdir_of toks2) as [[d2 t2]|e2]; cbn [seg_rel] in Hs;
    try contradiction; [|subst e2; reflexivity].
  destruct Hs as [Hd Ht]. rewrite (labels_rel _ _ H). destruct (toy_labels toks2 0 []) as [lb0|e]; [|reflexivity].
  rewrite (write_data_rel _ _ _ Hd). destruct (toy_write_data _ d2 _ lb0 []) as [[[last lb] m]|e]; [|reflexivity].
  rewrite (instantiate_rel _ _ Ht). reflexivity.
Qed.
