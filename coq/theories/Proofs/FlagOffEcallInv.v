(* FlagOffEcallInv.v — property C08, phase B, part 9: the simulation invariant between the
   flag-off pipeline and the delayed-write-back reference machine for ALL supported
   instructions, ecall included.

   New relative to FlagOffInv.v.  An ecall always sees every older register write: it fires in
   EX only when the MEM and WB inputs are empty.  In the reference machine [dwb_step] this is the
   two bubbles in front of an ecall that finds an instruction one or two slots ahead; if both
   slots ahead are bubbles already, the lag state is settled anyway.  Hence an ecall step is
   always  lstep . bub . bub  ([settle] first), whatever lies ahead of it, and the chain of
   pre-states of the invariant uses
        preE l M = settle M  for an ecall slot l,  M otherwise        (the state the slot executes from)
        advE l M = advL l (preE l M)
   With this chain the drain bubbles that the pipeline materialises only in latch 3 never have to
   be guessed: [advE E (bub M) = advE E M].  The decode-view identity
        lr2 (advE a (advE b M)) = regs (lt M)
   now fails exactly when a is an ecall behind an instruction b — the case in which the ecall
   drains and the slot behind it is decoded again; as in PipeInv.v the contents of latch 1 are
   therefore claimed only while the pipeline is not stalled. *)
From Coq Require Import Lia ZifyBool.
From ArchSim Require Import Model.Base Model.Mem Model.Cache Model.Fmt Model.RV Model.Single
  Model.RVSplit Model.Pipe Proofs.MapLemmas Proofs.WordLemmas Proofs.C01Step Proofs.SplitExec Proofs.C02Split
  Proofs.PipeLaws Proofs.PipeShape Proofs.PipeInv Proofs.PipeInvBase Proofs.PipeInvStages
  Proofs.FlagOffDwb Proofs.FlagOffInv.
Open Scope Z_scope.

Local Arguments Z.mul : simpl never.
Local Arguments Z.add : simpl never.
Local Arguments Z.sub : simpl never.

(** * The chain with settled ecalls *)
Definition is_ec (l : latch) : bool :=
  match l with Some x => is_ecall (sl_instr x) | None => false end.
Definition settle (L : lag) : lag := bub (bub L).
Definition preE (l : latch) (L : lag) : lag := if is_ec l then settle L else L.
Definition advE (l : latch) (L : lag) : lag := advL l (preE l L).

Lemma settle_bub L : settle (bub L) = settle L. Proof. reflexivity. Qed.
Lemma bub_settle L : bub (settle L) = settle L. Proof. reflexivity. Qed.
Lemma settle_settle L : settle (settle L) = settle L. Proof. reflexivity. Qed.
Lemma lt_settle L : lt (settle L) = lt L. Proof. reflexivity. Qed.
Lemma lt_preE l L : lt (preE l L) = lt L. Proof. unfold preE. destruct (is_ec l); reflexivity. Qed.
Lemma uview_settle L : uview (settle L) = with_regs (lt L) (regs (lt L)). Proof. reflexivity. Qed.

Lemma preE_none L : preE None L = L. Proof. reflexivity. Qed.
Lemma advE_none L : advE None L = bub L. Proof. reflexivity. Qed.
Lemma advE_some x L : advE (Some x) L = lnxt (preE (Some x) L). Proof. reflexivity. Qed.

Lemma preE_eq l l' L : is_ec l = is_ec l' -> preE l L = preE l' L.
Proof. unfold preE. intros ->. reflexivity. Qed.
Lemma advE_eq l l' L : nonempty l = nonempty l' -> is_ec l = is_ec l' -> advE l L = advE l' L.
Proof. unfold advE. intros H1 H2. rewrite (preE_eq l l' L H2). apply advL_ne; exact H1. Qed.

(* bubbles in front of an ecall are absorbed *)
Lemma preE_bub l L : is_ec l = true -> preE l (bub L) = preE l L.
Proof. unfold preE. intros ->. reflexivity. Qed.
Lemma advE_bub l L : is_ec l = true -> advE l (bub L) = advE l L.
Proof. unfold advE. intros H. rewrite (preE_bub l L H). reflexivity. Qed.

(* fields other than the registers *)
Lemma advE_ms l L : ms (lt (advE l L)) = ms (adv l (uview (preE l L))). Proof. apply advL_ms. Qed.
Lemma advE_out l L : out (lt (advE l L)) = out (adv l (uview (preE l L))). Proof. apply advL_out. Qed.
Lemma advE_exitc l L : exitc (lt (advE l L)) = exitc (adv l (uview (preE l L))). Proof. apply advL_exitc. Qed.
Lemma advE_bcount l L : bcount (lt (advE l L)) = bcount (adv l (uview (preE l L))). Proof. apply advL_bcount. Qed.
Lemma advE_pcount l L : pcount (lt (advE l L)) = pcount (adv l (uview (preE l L))). Proof. apply advL_pcount. Qed.
Lemma advE_icount l L : icount (lt (advE l L)) = icount (adv l (uview (preE l L))). Proof. apply advL_icount. Qed.
Lemma advE_pc l L : pc (lt (advE l L)) = pc (adv l (uview (preE l L))). Proof. apply advL_pc. Qed.
Lemma advE_im l L : im (lt (advE l L)) = im (adv l (uview (preE l L))). Proof. apply advL_im. Qed.

(* the decode view: the slot decoded in a cycle reads the register file left by that cycle's
   write-back — except behind an ecall that has an instruction in front of it *)
Lemma lr2_advE2 a b M : is_ec a = false \/ b = None -> lr2 (advE a (advE b M)) = regs (lt M).
Proof.
  unfold advE at 1. intros [Ha| ->].
  - unfold preE at 1. rewrite Ha. rewrite lr2_adv. unfold advE. rewrite lr1_adv. apply f_equal, lt_preE.
  - rewrite advE_none. unfold preE. destruct (is_ec a); destruct a; reflexivity.
Qed.

(** * Well-formedness *)
Lemma wfL_settle L : wfL L -> wfL (settle L).
Proof. intros H. unfold settle. apply wfL_bub, wfL_bub, H. Qed.
Lemma wfL_preE l L : wfL L -> wfL (preE l L).
Proof. intros H. unfold preE. destruct (is_ec l); [apply wfL_settle|]; exact H. Qed.

Section WithProgram.
Variable P : list instr.
Hypothesis Hsup : Forall (fun i => supported i = true) P.

Lemma wfL_advE L l : wfL L -> prog (im (lt L)) = P -> exitc (lt L) = None ->
  match l with Some x => onp P (uview (preE l L)) x | None => True end ->
  wfL (advE l L) /\ prog (im (lt (advE l L))) = P.
Proof.
  intros WL HP Hex Hl. destruct l as [x|]; [|split; [apply wfL_bub; exact WL|exact HP]].
  destruct Hl as (_ & _ & Hix). change (pc (uview (preE (Some x) L))) with (pc (lt (preE (Some x) L))) in Hix.
  pose proof (wfL_preE (Some x) L WL) as WL'.
  assert (HP' : prog (im (lt (preE (Some x) L))) = P) by (rewrite lt_preE; exact HP).
  assert (Hex' : exitc (lt (preE (Some x) L)) = None) by (rewrite lt_preE; exact Hex).
  destruct (wfL_lnxt _ (sl_instr x) WL' Hex' ltac:(rewrite HP'; exact Hix)) as [A B].
  rewrite advE_some. split; [exact A|congruence].
Qed.

(** * The invariant *)
Record EInvAt (p : pstate) (L : lag) (l0 l1 l2 l3 l4 : latch) (dead : nat) : Prop := mkEInvAt {
  ev_lat : lat p = [l0; l1; l2; l3; l4];
  ev_shape : Shape no_icache p;
  ev_hz : hazards p = false;
  ev_progp : prog (im (pst p)) = P;
  ev_progs : prog (im (lt L)) = P;
  ev_wf : wfL L;
  ev_exit_s : exitc (lt L) = None;
  ev_dead : (dead <= 3)%nat;
  ev_d1 : Dsh_latch l1;
  ev_l3 : lv3 P (uview (preE l3 L)) l3;
  ev_l2 : lv P True (dead = 3%nat) (uview (preE l2 (advE l3 L))) l2 Eok;
  ev_l1 : lv P (dead <= 2)%nat (dead = 2%nat) (uview (preE l1 (advE l2 (advE l3 L)))) l1
             (fun t x => stalled p = None -> Dok t x);
  ev_l0 : lv P (dead <= 1)%nat (dead = 1%nat)
             (uview (preE l0 (advE l1 (advE l2 (advE l3 L))))) l0 (fun _ _ => True);
  ev_fetch : dead = 0%nat ->
             let LF := advE l0 (advE l1 (advE l2 (advE l3 L))) in
             wfL LF /\ prog (im (lt LF)) = P /\ exitc (lt LF) = None /\ pc (pst p) = pc (lt LF);
  ev_regs : regs (pst p) = regs (lt L);
  ev_ms : ms (pst p) = ms (lt (advE l3 L));
  ev_bcount : bcount (pst p) = bcount (lt (advE l3 L));
  ev_pcount : pcount (pst p) = pcount (lt (advE l3 L));
  ev_out : out (pst p) = out (lt (if fired l2 then advE l2 (advE l3 L) else advE l3 L));
  ev_exitc : exitc (pst p) = None;
  ev_icount : icount (pst p) = icount (lt L);
  ev_fired : fired l2 = match stalled p with
                        | Some (k, _) => if k =? 2 then false else nonempty l2
                        | None => nonempty l2
                        end }.

Definition EInv (p : pstate) (L : lag) : Prop :=
  exists l0 l1 l2 l3 l4 dead, EInvAt p L l0 l1 l2 l3 l4 dead.

Lemma einv_init s : wf s -> prog (im s) = P -> exitc s = None -> EInv (pipe_init s false) (lag_init s).
Proof.
  intros W HP Hex. exists None, None, None, None, None, 0%nat.
  assert (WL : wfL (lag_init s)) by (split; [exact W|split; apply (wf_r _ W)]).
  constructor; cbn [pipe_init pst lat stalled saved hazards advE preE is_ec advL nonempty fired lv lag_init lt bub];
    try reflexivity; try assumption; try lia.
  - apply shape_init. unfold no_icache. apply (wf_noic s W).
  - intros _. split; [|split; [exact HP|split; [exact Hex|reflexivity]]].
    split; [exact W|split; apply (wf_r _ W)].
Qed.

Lemma pc_uview_preE l M : pc (uview (preE l M)) = pc (lt M).
Proof. change (pc (uview (preE l M))) with (pc (lt (preE l M))). rewrite lt_preE. reflexivity. Qed.

Lemma onp_pc l M x : onp P (uview (preE l M)) x -> instr_at P (pc (lt M)) = Some (sl_instr x) /\ sl_addr x = pc (lt M).
Proof. intros (_ & Ha & Hi). rewrite pc_uview_preE in Ha, Hi. split; assumption. Qed.

(** * The pipeline is done exactly when the reference machine is *)
Lemma edone_iff p L l0 l1 l2 l3 l4 dead : EInvAt p L l0 l1 l2 l3 l4 dead ->
  pipe_done p = single_done (lt L).
Proof.
  intros [Hl Sh Hz HPp HPs W Hexs Hd D1 L3 L2 L1 L0 HF Hrg Hms Hbc Hpcn Hout Hexc Hic].
  unfold pipe_done, single_done, pipe_empty, has_instr. rewrite Hexc, Hexs, Hl, HPp, HPs. lat5.
  assert (Hon : forall l M x, pc (lt M) = pc (lt L) -> onp P (uview (preE l M)) x -> instr_at P (pc (lt L)) <> None).
  { intros l M x HM Ho. apply onp_pc in Ho. destruct Ho as [Hi _]. rewrite HM in Hi. rewrite Hi. discriminate. }
  destruct l3 as [x3|]; cbn [nonempty orb negb andb lv3] in *.
  { rewrite Bool.orb_true_r. cbn [negb andb]. destruct L3 as (_ & Ho & _).
    apply (Hon _ L) in Ho; [|reflexivity]. destruct (instr_at P (pc (lt L))); [reflexivity|congruence]. }
  rewrite advE_none in *.
  destruct l2 as [x2|]; cbn [nonempty orb negb andb lv] in *.
  { rewrite Bool.orb_true_r. cbn [negb andb]. destruct (L2 Logic.I) as (_ & Ho & _).
    apply (Hon _ (bub L)) in Ho; [|reflexivity]. destruct (instr_at P (pc (lt L))); [reflexivity|congruence]. }
  rewrite advE_none in *.
  destruct l1 as [x1|]; cbn [nonempty orb negb andb lv] in *.
  { rewrite Bool.orb_true_r. cbn [negb andb]. destruct (L1 ltac:(lia)) as (_ & Ho & _).
    apply (Hon _ (bub (bub L))) in Ho; [|reflexivity]. destruct (instr_at P (pc (lt L))); [reflexivity|congruence]. }
  rewrite advE_none in *.
  destruct l0 as [x0|]; cbn [nonempty orb negb andb lv] in *.
  { destruct (L0 ltac:(lia)) as (_ & Ho & _).
    apply (Hon _ (bub (bub (bub L)))) in Ho; [|reflexivity]. destruct (instr_at P (pc (lt L))); [reflexivity|congruence]. }
  assert (H0 : dead = 0%nat) by lia. destruct (HF H0) as (_ & _ & _ & Hpc). rewrite Hpc. reflexivity.
Qed.

Lemma einv_empty_agree p L l0 l1 l4 dead : EInvAt p L l0 l1 None None l4 dead -> arch_agree p (lt L).
Proof.
  intros [Hl Sh Hz HPp HPs W Hexs Hd D1 L3 L2 L1 L0 HF Hrg Hms Hbc Hpcn Hout Hexc Hic].
  cbn [advE preE is_ec advL nonempty fired bub lt] in *. unfold arch_agree. rewrite Hexc, Hexs. repeat split; assumption.
Qed.

Lemma edone_empty p L l0 l1 l2 l3 l4 dead : EInvAt p L l0 l1 l2 l3 l4 dead ->
  single_done (lt L) = true -> l3 = None /\ l2 = None.
Proof.
  intros [Hl Sh Hz HPp HPs W Hexs Hd D1 L3 L2 L1 L0 HF Hrg Hms Hbc Hpcn Hout Hexc Hic] Hdone.
  unfold single_done, has_instr in Hdone. rewrite Hexs, HPs in Hdone.
  assert (Hon : forall l M x, pc (lt M) = pc (lt L) -> onp P (uview (preE l M)) x -> False).
  { intros l M x HM Ho. apply onp_pc in Ho. destruct Ho as [Hi _]. rewrite HM in Hi. rewrite Hi in Hdone. discriminate. }
  destruct l3 as [x3|]; [exfalso; destruct L3 as (_ & Ho & _); eapply (Hon _ L); eauto|].
  split; [reflexivity|]. rewrite advE_none in L2.
  destruct l2 as [x2|]; [exfalso; destruct (L2 Logic.I) as (_ & Ho & _); eapply (Hon _ (bub L)); eauto|reflexivity].
Qed.

End WithProgram.
