(* LexProofs4.v — Model/Lex.v: every token reader of the grammar respects an inserted run of blanks
   (relations RS / RR of LexProofs3.v). *)
From Coq Require Import ZArith List Bool Lia ZifyBool.
From ArchSim Require Import Model.Base Model.Fmt Model.Toy Model.Asm Model.Lex Proofs.LexProofs2 Proofs.LexProofs3.
Import ListNotations.
Open Scope Z_scope.

(* one step of a reader: split on the related results of a sub-reader *)
Ltac stepx X x r r' H :=
  match type of X with
  | rres _ ?t1 ?t2 =>
      let o1 := fresh "o" in let o2 := fresh "o" in let E1 := fresh "E" in let E2 := fresh "E" in
      remember t1 as o1 eqn:E1; remember t2 as o2 eqn:E2; destruct X as [|x r r' H]; clear E1 E2;
      cbv beta iota; [try apply rr_none; try apply r1_none|]
  end.
Ltac stepu X r r' H :=
  match type of X with
  | rres1 _ ?t1 ?t2 =>
      let o1 := fresh "o" in let o2 := fresh "o" in let E1 := fresh "E" in let E2 := fresh "E" in
      remember t1 as o1 eqn:E1; remember t2 as o2 eqn:E2; destruct X as [|r r' H]; clear E1 E2;
      cbv beta iota; [try apply rr_none; try apply r1_none|]
  end.

Section Gap2.
  Variables (ws b : str).
  Hypothesis Hws : blanks ws = true.
  Hypothesis Hne : ws <> [].
  Notation RRw := (RR ws b).
  Notation RSw := (RS ws b).

  Lemma aft_rr r r' : Aft b r r' -> RRw r r'.  Proof. apply Aft_RR. Qed.
  Lemma aft_rs r r' : Aft b r r' -> RSw r r'.  Proof. apply Aft_RS. Qed.
  Lemma rr_rs r r' : RRw r r' -> RSw r r'.     Proof. apply RR_RS. Qed.

  Lemma resp_gresp {A} (g : str -> option (A * str)) Post ne : resp RRw Post g -> gresp ws b ne Post g.
  Proof. intros H a _ Hq Hc. apply H. apply G_mk; assumption. Qed.

  Lemma raw_resp1 (g : str -> option str) Post :
    gresp1 ws b false Post g -> (forall s r, g s = Some r -> (List.length r <= List.length s)%nat) ->
    (forall r r', Aft b r r' -> Post r r') -> resp1 RRw Post g.
  Proof.
    intros G C HP u u' [(a & -> & -> & Hq & Hc)|[<- L]].
    - apply G; [discriminate|exact Hq|exact Hc].
    - destruct (g u) as [r|] eqn:E; constructor. apply HP. split; [reflexivity|]. apply C in E. lia.
  Qed.

  (** raw primitives as [resp RR RR] *)
  Lemma lit_r w : nosep w = true -> w <> [] -> resp1 RRw RRw (lit w).
  Proof.
    intros Hs Hn. apply raw_resp1; [apply lit_g; assumption| |apply aft_rr].
    intros s r H. apply lit_len in H. lia.
  Qed.
  Lemma span1_r p : (forall c, sep c = true -> p c = false) -> resp RRw RRw (span1 p).
  Proof.
    intros Hp. apply (raw_resp ws b Hws); [apply span1_g; assumption| |apply aft_rr].
    intros s x r H. apply (span1_cons ws Hws) in H. lia.
  Qed.
  Lemma word_r : resp RRw RRw word.
  Proof.
    apply (raw_resp ws b Hws); [apply word_g; assumption| |apply aft_rr].
    intros s x r H. apply (word_cons ws Hws) in H. lia.
  Qed.
  Lemma quoted_r : resp RRw RRw quoted_raw.
  Proof.
    apply (raw_resp ws b Hws); [apply quoted_g; assumption| |apply aft_rr].
    intros s x r H. apply (quoted_cons ws Hws) in H. lia.
  Qed.
  Lemma lit_best_r syms : syms_ok syms = true -> resp RRw RRw (lit_best syms).
  Proof.
    intros Hs. apply (raw_resp ws b Hws); [apply lit_best_g; assumption| |apply aft_rr].
    intros s x r H. apply (lit_best_cons ws Hws syms Hs) in H. lia.
  Qed.
  Lemma kw_best_r syms : kws_ok syms = true -> kws_ne syms = true -> resp RRw RRw (kw_best syms).
  Proof.
    intros Hs Hn. apply (raw_resp ws b Hws); [apply kw_best_g; assumption| |apply aft_rr].
    intros s x r H. apply (kw_best_cons ws Hws syms Hn) in H. lia.
  Qed.
  Lemma ci_lit_r cm w : cm_ok cm -> forallb is_lower w = true -> resp RRw RRw (ci_lit cm w).
  Proof.
    intros Hc Hw. apply (raw_resp ws b Hws); [apply ci_lit_g; assumption| |apply aft_rr].
    intros s x r H. apply (ci_lit_len ws Hws) in H. lia.
  Qed.

  (** blank-skipping single-character literals: , ( ) : + . *)
  Lemma tlit1_s c : resp1 RSw RSw (tlit [c]).
  Proof.
    unfold tlit. apply (skip_lift1 ws b Hws (lit [c])); [apply lit_punct_g| |apply aft_rs].
    intros s r H. apply lit_len in H. cbn in H. lia.
  Qed.
  Lemma comma_s : resp1 RSw RSw comma.   Proof. apply tlit1_s. Qed.
  Lemma colon_s : resp1 RSw RSw colon.   Proof. apply tlit1_s. Qed.

  Lemma gresp1_weak (g : str -> option str) Post : gresp1 ws b false Post g -> gresp1 ws b true Post g.
  Proof. intros H a _ Hq Hc. apply H; [discriminate|exact Hq|exact Hc]. Qed.
  Lemma tlit_s w : nosep w = true -> w <> [] -> resp1 RSw RRw (tlit w).
  Proof.
    intros Hs Hn. unfold tlit. apply (skip_lift1 ws b Hws (lit w)); [apply gresp1_weak, lit_g; assumption| |apply aft_rr].
    intros s r H. apply lit_len in H. destruct w; [congruence|cbn in H; lia].
  Qed.

  Lemma skipped_s {A} (g : str -> option (A * str)) :
    resp RRw RRw g -> cons1 g -> resp RSw RRw (fun s => g (skip_ws s)).
  Proof. intros H C. apply (skip_lift ws b Hws g); [apply resp_gresp, H|exact C|apply aft_rr]. Qed.

  (** registers (symbol tables abstract, so that nothing unfolds them) *)
  Definition reg_gen (A N : list str) (s : str) : option (regtok * str) :=
    match lit_best A s with
    | Some (n, r) => Some (RAbi n, r)
    | None =>
        match lit [120] s with
        | Some r => match lit_best N (skip_ws r) with
                    | Some (d, r') => Some (RX d, r')
                    | None => None
                    end
        | None => None
        end
    end.
  Lemma p_reg_gen s : p_reg s = reg_gen abi_names reg_numbers (skip_ws s).
  Proof. unfold p_reg, reg_gen. cbv zeta. reflexivity. Qed.

  Lemma abi_ok : syms_ok abi_names = true.      Proof. vm_compute. reflexivity. Qed.
  Lemma regnums_ok : syms_ok reg_numbers = true. Proof. vm_compute. reflexivity. Qed.

  Lemma reg_gen_r A N : syms_ok A = true -> syms_ok N = true -> resp RRw RRw (reg_gen A N).
  Proof.
    intros HA HN u u' H. unfold reg_gen.
    pose proof (lit_best_r A HA u u' H) as X. stepx X n r r' Hr.
    - pose proof (lit_r [120] eq_refl ltac:(discriminate) u u' H) as Y. stepu Y r r' Hr.
      pose proof (skipped_s (lit_best N) (lit_best_r _ HN) (lit_best_cons ws Hws _ HN)
                    r r' (rr_rs _ _ Hr)) as Z.
      cbv beta in Z. stepx Z d q q' Hq. constructor. exact Hq.
    - constructor. exact Hr.
  Qed.
  Lemma reg_gen_cons A N : syms_ok A = true -> syms_ok N = true -> cons1 (reg_gen A N).
  Proof.
    intros HA HN s x r H. unfold reg_gen in H.
    destruct (lit_best A s) as [[n q]|] eqn:E1.
    - inversion H; subst. apply (lit_best_cons ws Hws _ HA) in E1. exact E1.
    - destruct (lit [120] s) as [q|] eqn:E2; [|discriminate]. apply lit_len in E2.
      destruct (lit_best N (skip_ws q)) as [[d q']|] eqn:E3; [|discriminate]. inversion H; subst.
      apply (lit_best_cons ws Hws _ HN) in E3. pose proof (skip_ws_len q). cbn in E2. lia.
  Qed.
  Lemma p_reg_s : resp RSw RRw p_reg.
  Proof.
    intros u u' H. rewrite !p_reg_gen.
    exact (skipped_s _ (reg_gen_r _ _ abi_ok regnums_ok) (reg_gen_cons _ _ abi_ok regnums_ok) u u' H).
  Qed.

  (** numbers *)
  Lemma hex_raw_r : resp RRw RRw hex_raw.
  Proof.
    intros u u' H. unfold hex_raw.
    pose proof (lit_r [48; 120] eq_refl ltac:(discriminate) u u' H) as X. stepu X r r' Hr.
    pose proof (span1_r is_hex sep_hex r r' Hr) as Y. stepx Y h q q' Hq. constructor. exact Hq.
  Qed.
  Lemma bin_raw_r : resp RRw RRw bin_raw.
  Proof.
    intros u u' H. unfold bin_raw.
    pose proof (lit_r [48; 98] eq_refl ltac:(discriminate) u u' H) as X. stepu X r r' Hr.
    pose proof (span1_r is_bin sep_bin r r' Hr) as Y. stepx Y h q q' Hq. constructor. exact Hq.
  Qed.
  Lemma num_raw_r : resp RRw RRw num_raw.
  Proof.
    intros u u' H. unfold num_raw.
    pose proof (hex_raw_r u u' H) as X. stepx X h r r' Hr; [|constructor; exact Hr].
    pose proof (bin_raw_r u u' H) as Y. stepx Y h r r' Hr; [|constructor; exact Hr].
    apply (span1_r is_digit sep_digit), H.
  Qed.
  Lemma hex_raw_cons : cons1 hex_raw.
  Proof.
    intros s x r H. unfold hex_raw in H. destruct (lit [48; 120] s) as [q|] eqn:E; [|discriminate].
    apply lit_len in E. destruct (span1 is_hex q) as [[h q']|] eqn:E2; [|discriminate]. inversion H; subst.
    apply (span1_cons ws Hws) in E2. cbn in E. lia.
  Qed.
  Lemma bin_raw_cons : cons1 bin_raw.
  Proof.
    intros s x r H. unfold bin_raw in H. destruct (lit [48; 98] s) as [q|] eqn:E; [|discriminate].
    apply lit_len in E. destruct (span1 is_bin q) as [[h q']|] eqn:E2; [|discriminate]. inversion H; subst.
    apply (span1_cons ws Hws) in E2. cbn in E. lia.
  Qed.
  Lemma num_raw_cons : cons1 num_raw.
  Proof.
    intros s x r H. unfold num_raw in H. destruct (hex_raw s) as [[h q]|] eqn:E.
    - inversion H; subst. apply hex_raw_cons in E. exact E.
    - destruct (bin_raw s) as [[h q]|] eqn:E2.
      + inversion H; subst. apply bin_raw_cons in E2. exact E2.
      + apply (span1_cons ws Hws) in H. exact H.
  Qed.
  Lemma imm_raw_minus t :
    imm_raw (45 :: t) = match num_raw t with Some (n, r) => Some (45 :: n, r) | None => None end.
  Proof. reflexivity. Qed.
  Lemma imm_raw_cons : cons1 imm_raw.
  Proof.
    intros s x r H. destruct s as [|c t]; [discriminate|]. destruct (Z.eq_dec c 45) as [->|Hc].
    - rewrite imm_raw_minus in H. destruct (num_raw t) as [[n q]|] eqn:E; [|discriminate]. inversion H; subst.
      apply num_raw_cons in E. cbn [List.length]. lia.
    - rewrite imm_raw_not_minus in H by exact Hc. apply num_raw_cons in H. exact H.
  Qed.
  Lemma imm_raw_hd_sep s : hd_sep s = true -> imm_raw s = num_raw s.
  Proof.
    intros H. destruct s as [|c t]; [reflexivity|]. apply imm_raw_not_minus. cbn [hd_sep] in H.
    intros ->. discriminate.
  Qed.
  Lemma imm_raw_r : resp RRw RRw imm_raw.
  Proof.
    apply (raw_resp ws b Hws); [| |apply aft_rr].
    - intros a _ Hq Hc. destruct a as [|d a'].
      + cbn [app]. rewrite (imm_raw_hd_sep _ (hd_sep_ws ws Hws Hne b)), (imm_raw_hd_sep _ Hc).
        apply num_raw_r. apply (G_mk ws b []); assumption.
      + cbn [app]. destruct (Z.eq_dec d 45) as [->|Hd].
        * rewrite !imm_raw_minus.
          pose proof (num_raw_r _ _ (G_mk ws b a' (noquote_tail _ _ Hq) (cond_tail _ _ _ Hc (fun _ => eq_refl)))) as X.
          stepx X n r r' Hr. constructor. exact Hr.
        * rewrite !imm_raw_not_minus by exact Hd. apply num_raw_r. apply (G_mk ws b (d :: a')); assumption.
    - intros s x r H. apply imm_raw_cons in H. lia.
  Qed.
  Lemma p_imm_s : resp RSw RRw p_imm.
  Proof. exact (skipped_s imm_raw imm_raw_r imm_raw_cons). Qed.
  Lemma hex_skip_s : resp RSw RRw (fun s => hex_raw (skip_ws s)).
  Proof. exact (skipped_s hex_raw hex_raw_r hex_raw_cons). Qed.

  (** labels, quoted strings, keywords *)
  Lemma p_label_s : resp RSw RRw p_label.
  Proof. exact (skipped_s word word_r (word_cons ws Hws)). Qed.
  Lemma p_quoted_s : resp RSw RRw p_quoted.
  Proof. exact (skipped_s quoted_raw quoted_r (quoted_cons ws Hws)). Qed.
  Lemma kw_s syms : kws_ok syms = true -> kws_ne syms = true -> resp RSw RRw (kw syms).
  Proof. intros H1 H2. exact (skipped_s (kw_best syms) (kw_best_r syms H1 H2) (kw_best_cons ws Hws syms H2)). Qed.
  Lemma clit_s w : forallb is_lower (codes w) = true -> codes w <> [] -> resp1 RSw RRw (clit w).
  Proof.
    intros Hw Hn u u' H. unfold clit.
    assert (C : cons1 (ci_lit ci_upper (codes w))).
    { intros s x r E. apply (ci_lit_len ws Hws) in E. destruct (codes w); [congruence|cbn in E; lia]. }
    pose proof (skipped_s _ (ci_lit_r ci_upper (codes w) (ci_upper_sep ws Hws) Hw) C u u' H) as X. cbv beta in X.
    stepx X p r r' Hr. constructor. exact Hr.
  Qed.

  (* Optional("+" + 0x..) *)
  Lemma p_offset_t u u' : RSw u u' -> rtot RSw (p_offset u) (p_offset u').
  Proof.
    intros H. unfold p_offset.
    pose proof (tlit1_s 43 u u' H) as X. stepu X r r' Hr; [split; [reflexivity|exact H]|].
    pose proof (hex_skip_s r r' Hr) as Y. cbv beta in Y. stepx Y o q q' Hq; [split; [reflexivity|exact H]|].
    split; [reflexivity|]. apply rr_rs, Hq.
  Qed.

  (** name[index] *)
  Definition var_raw (s : str) : option ((str * option str) * str) :=
    match word s with
    | Some (n, r) =>
        match lit [91] r with
        | Some t =>
            match span is_digit t with
            | (c :: d, r2) => match lit [93] r2 with
                              | Some r' => Some ((n, Some (c :: d)), r')
                              | None => Some ((n, None), r)
                              end
            | ([], _) => Some ((n, None), r)
            end
        | None => Some ((n, None), r)
        end
    | None => None
    end.
  Lemma p_var_raw s : p_var s = var_raw (skip_ws s).
  Proof.
    unfold p_var, var_raw. destruct (word (skip_ws s)) as [[n r]|]; [|reflexivity].
    destruct r as [|c t]; [reflexivity|]. destruct (Z.eq_dec c 91) as [->|Hc].
    - cbn [lit]. rewrite Z.eqb_refl. destruct (span is_digit t) as [[|c0 d] r2]; [reflexivity|].
      destruct r2 as [|c2 r3]; [reflexivity|]. destruct (Z.eq_dec c2 93) as [->|Hc2]; [reflexivity|].
      destruct c2 as [|p|p]; try reflexivity. do 7 (destruct p as [p|p|]; try reflexivity).
    - destruct c as [|p|p]; try reflexivity. do 7 (destruct p as [p|p|]; try reflexivity). all: try congruence.
  Qed.

  Lemma span_rt p u u' : (forall c, sep c = true -> p c = false) -> RRw u u' -> rtot RRw (span p u) (span p u').
  Proof.
    intros Hp [(a & -> & -> & Hq & Hc)|[<- L]].
    - apply (span_g ws b Hws Hne); assumption.
    - split; [reflexivity|]. right. split; [reflexivity|]. pose proof (span_len ws Hws p u). lia.
  Qed.

  Lemma var_raw_r : resp RRw RRw var_raw.
  Proof.
    intros u u' H. unfold var_raw.
    pose proof (word_r u u' H) as X. stepx X n r r' Hr.
    pose proof (lit_r [91] eq_refl ltac:(discriminate) r r' Hr) as Y. stepu Y t t' Ht; [constructor; exact Hr|].
    destruct (span_rt is_digit t t' sep_digit Ht) as [E1 E2].
    destruct (span is_digit t) as [x q], (span is_digit t') as [x' q']. cbn [fst snd] in E1, E2. subst x'.
    destruct x as [|c d]; [constructor; exact Hr|].
    pose proof (lit_r [93] eq_refl ltac:(discriminate) q q' E2) as Z. stepu Z z z' Hz; constructor; assumption.
  Qed.
  Lemma var_raw_cons : cons1 var_raw.
  Proof.
    intros s x r H. unfold var_raw in H. destruct (word s) as [[n q]|] eqn:E; [|discriminate].
    apply (word_cons ws Hws) in E.
    destruct (lit [91] q) as [t|] eqn:E2; [|inversion H; subst; exact E].
    apply lit_len in E2. pose proof (span_len ws Hws is_digit t) as L. destruct (span is_digit t) as [[|c d] r2];
      [inversion H; subst; exact E|].
    destruct (lit [93] r2) as [r'|] eqn:E3; [|inversion H; subst; exact E].
    apply lit_len in E3. inversion H; subst. cbn [snd] in L. cbn in E2, E3. lia.
  Qed.
  Lemma p_var_s : resp RSw RRw p_var.
  Proof.
    intros u u' H. rewrite !p_var_raw. exact (skipped_s var_raw var_raw_r var_raw_cons u u' H).
  Qed.

  (* Optional(label + ":") *)
  Lemma p_inline_t u u' : RSw u u' -> rtot RSw (p_inline u) (p_inline u').
  Proof.
    intros H. unfold p_inline.
    pose proof (p_label_s u u' H) as X. stepx X n r r' Hr; [split; [reflexivity|exact H]|].
    pose proof (colon_s r r' (rr_rs _ _ Hr)) as Y. stepu Y q q' Hq; [split; [reflexivity|exact H]|].
    split; [reflexivity|exact Hq].
  Qed.

  (* ZeroOrMore("," + imm): the fuel only has to be large enough *)
  Lemma comma_len s r : comma s = Some r -> (List.length r < List.length s)%nat.
  Proof.
    unfold comma, tlit. intros H. apply lit_len in H. pose proof (skip_ws_len s). cbn in H. lia.
  Qed.
  Lemma p_imm_len s x r : p_imm s = Some (x, r) -> (List.length r < List.length s)%nat.
  Proof. unfold p_imm. intros H. apply imm_raw_cons in H. pose proof (skip_ws_len s). lia. Qed.

  Lemma imm_tail_t : forall n u u' f f',
    (List.length u <= n)%nat -> (List.length u' <= n)%nat -> (n <= f)%nat -> (n <= f')%nat ->
    RSw u u' -> rtot RSw (imm_tail f u) (imm_tail f' u').
  Proof.
    induction n as [|n IH]; intros u u' f f' L L' F F' H.
    - destruct u; [|cbn in L; lia]. destruct u'; [|cbn in L'; lia].
      assert (E : forall k, imm_tail k [] = ([], [])) by (intros [|k]; reflexivity).
      rewrite !E. split; [reflexivity|exact H].
    - destruct f as [|f]; [lia|]. destruct f' as [|f']; [lia|]. cbn [imm_tail].
      pose proof (comma_s u u' H) as X.
      remember (comma u) as o1 eqn:E1. remember (comma u') as o2 eqn:E2.
      destruct X as [|r r' Hr]; [split; [reflexivity|exact H]|].
      pose proof (p_imm_s r r' Hr) as Y.
      remember (p_imm r) as o3 eqn:E3. remember (p_imm r') as o4 eqn:E4.
      destruct Y as [|i q q' Hq]; [split; [reflexivity|exact H]|].
      symmetry in E1, E2, E3, E4. apply comma_len in E1, E2. apply p_imm_len in E3, E4.
      destruct (IH q q' f f') as [G1 G2]; try lia; [apply rr_rs, Hq|].
      destruct (imm_tail f q) as [l1 q1], (imm_tail f' q') as [l2 q2]. cbn [fst snd] in *. subst l2.
      split; [reflexivity|exact G2].
  Qed.
End Gap2.
