(* LexProofs4.v — Model/Lex.v: every token reader of the grammar respects an inserted run of blanks
   (relations RS / RR of LexProofs3.v). *)
From Coq Require Import ZArith List Bool Lia ZifyBool.
From ArchSim Require Import Model.Base Model.Fmt Model.Toy Model.Asm Model.Lex Proofs.LexProofs2 Proofs.LexProofs3.
Import ListNotations.
Open Scope Z_scope.

(* one step of a reader: split on the related results of a sub-reader *)
Ltac stepx X x r r' H :=
  match type of X with
  | rres _ ?t1 ?t2 =>
      let o1 := fresh "o" in let o2 := fresh "o" in let E1 := fresh "E" in let E2 := fresh "E" in
      remember t1 as o1 eqn:E1; remember t2 as o2 eqn:E2; destruct X as [|x r r' H]; clear E1 E2;
      cbv beta iota; [try constructor|]
  end.
Ltac stepu X r r' H :=
  match type of X with
  | rres1 _ ?t1 ?t2 =>
      let o1 := fresh "o" in let o2 := fresh "o" in let E1 := fresh "E" in let E2 := fresh "E" in
      remember t1 as o1 eqn:E1; remember t2 as o2 eqn:E2; destruct X as [|r r' H]; clear E1 E2;
      cbv beta iota; [try constructor|]
  end.

Section Gap2.
  Variables (ws b : str).
  Hypothesis Hws : blanks ws = true.
  Hypothesis Hne : ws <> [].
  Notation RRw := (RR ws b).
  Notation RSw := (RS ws b).

  Lemma aft_rr r r' : Aft b r r' -> RRw r r'.  Proof. apply Aft_RR. Qed.
  Lemma aft_rs r r' : Aft b r r' -> RSw r r'.  Proof. apply Aft_RS. Qed.
  Lemma rr_rs r r' : RRw r r' -> RSw r r'.     Proof. apply RR_RS. Qed.

  Lemma resp_gresp {A} (g : str -> option (A * str)) Post ne : resp RRw Post g -> gresp ws b ne Post g.
  Proof. intros H a _ Hq Hc. apply H. apply G_mk; assumption. Qed.

  Lemma raw_resp1 (g : str -> option str) Post :
    gresp1 ws b false Post g -> (forall s r, g s = Some r -> (List.length r <= List.length s)%nat) ->
    (forall r r', Aft b r r' -> Post r r') -> resp1 RRw Post g.
  Proof.
    intros G C HP u u' [(a & -> & -> & Hq & Hc)|[<- L]].
    - apply G; [discriminate|exact Hq|exact Hc].
    - destruct (g u) as [r|] eqn:E; constructor. apply HP. split; [reflexivity|]. apply C in E. lia.
  Qed.

  (** raw primitives as [resp RR RR] *)
  Lemma lit_r w : nosep w = true -> w <> [] -> resp1 RRw RRw (lit w).
  Proof.
    intros Hs Hn. apply raw_resp1; [apply lit_g; assumption| |apply aft_rr].
    intros s r H. apply lit_len in H. lia.
  Qed.
  Lemma span1_r p : (forall c, sep c = true -> p c = false) -> resp RRw RRw (span1 p).
  Proof.
    intros Hp. apply (raw_resp ws b Hws); [apply span1_g; assumption| |apply aft_rr].
    intros s x r H. apply (span1_cons ws Hws) in H. lia.
  Qed.
  Lemma word_r : resp RRw RRw word.
  Proof.
    apply (raw_resp ws b Hws); [apply word_g; assumption| |apply aft_rr].
    intros s x r H. apply (word_cons ws Hws) in H. lia.
  Qed.
  Lemma quoted_r : resp RRw RRw quoted_raw.
  Proof.
    apply (raw_resp ws b Hws); [apply quoted_g; assumption| |apply aft_rr].
    intros s x r H. apply (quoted_cons ws Hws) in H. lia.
  Qed.
  Lemma lit_best_r syms : syms_ok syms = true -> resp RRw RRw (lit_best syms).
  Proof.
    intros Hs. apply (raw_resp ws b Hws); [apply lit_best_g; assumption| |apply aft_rr].
    intros s x r H. apply (lit_best_cons ws Hws syms Hs) in H. lia.
  Qed.
  Lemma kw_best_r syms : kws_ok syms = true -> kws_ne syms = true -> resp RRw RRw (kw_best syms).
  Proof.
    intros Hs Hn. apply (raw_resp ws b Hws); [apply kw_best_g; assumption| |apply aft_rr].
    intros s x r H. apply (kw_best_cons ws Hws syms Hn) in H. lia.
  Qed.
  Lemma ci_lit_r cm w : cm_ok cm -> forallb is_lower w = true -> resp RRw RRw (ci_lit cm w).
  Proof.
    intros Hc Hw. apply (raw_resp ws b Hws); [apply ci_lit_g; assumption| |apply aft_rr].
    intros s x r H. apply (ci_lit_len ws Hws) in H. lia.
  Qed.

  (** blank-skipping single-character literals: , ( ) : + . *)
  Lemma tlit1_s c : resp1 RSw RSw (tlit [c]).
  Proof.
    unfold tlit. apply (skip_lift1 ws b Hws (lit [c])); [apply lit_punct_g| |apply aft_rs].
    intros s r H. apply lit_len in H. cbn in H. lia.
  Qed.
  Lemma comma_s : resp1 RSw RSw comma.   Proof. apply tlit1_s. Qed.
  Lemma colon_s : resp1 RSw RSw colon.   Proof. apply tlit1_s. Qed.

  Lemma gresp1_weak (g : str -> option str) Post : gresp1 ws b false Post g -> gresp1 ws b true Post g.
  Proof. intros H a _ Hq Hc. apply H; [discriminate|exact Hq|exact Hc]. Qed.
  Lemma tlit_s w : nosep w = true -> w <> [] -> resp1 RSw RRw (tlit w).
  Proof.
    intros Hs Hn. unfold tlit. apply (skip_lift1 ws b Hws (lit w)); [apply gresp1_weak, lit_g; assumption| |apply aft_rr].
    intros s r H. apply lit_len in H. destruct w; [congruence|cbn in H; lia].
  Qed.

  (** registers *)
  Definition reg_raw (s : str) : option (regtok * str) :=
    match lit_best abi_names s with
    | Some (n, r) => Some (RAbi n, r)
    | None =>
        match lit [120] s with
        | Some r => match lit_best reg_numbers (skip_ws r) with
                    | Some (d, r') => Some (RX d, r')
                    | None => None
                    end
        | None => None
        end
    end.
  Lemma p_reg_raw s : p_reg s = reg_raw (skip_ws s).  Proof. reflexivity. Qed.

  Lemma abi_ok : syms_ok abi_names = true.      Proof. vm_compute. reflexivity. Qed.
  Lemma regnums_ok : syms_ok reg_numbers = true. Proof. vm_compute. reflexivity. Qed.

  Lemma skipped_s {A} (g : str -> option (A * str)) :
    resp RRw RRw g -> cons1 g -> resp RSw RRw (fun s => g (skip_ws s)).
  Proof. intros H C. apply (skip_lift ws b Hws g); [apply resp_gresp, H|exact C|apply aft_rr]. Qed.

  Lemma reg_raw_r : resp RRw RRw reg_raw.
  Proof.
    intros u u' H. unfold reg_raw.
    pose proof (lit_best_r abi_names abi_ok u u' H) as X. stepx X n r r' Hr.
    - pose proof (lit_r [120] eq_refl ltac:(discriminate) u u' H) as Y. stepu Y r r' Hr.
      pose proof (skipped_s (lit_best reg_numbers) (lit_best_r _ regnums_ok) (lit_best_cons ws Hws _ regnums_ok)
                    r r' (rr_rs _ _ Hr)) as Z.
      cbv beta in Z. stepx Z d q q' Hq. constructor. exact Hq.
    - constructor. exact Hr.
  Qed.
  Lemma reg_raw_cons : cons1 reg_raw.
  Proof.
    intros s x r H. unfold reg_raw in H.
    destruct (lit_best abi_names s) as [[n q]|] eqn:E1.
    - inversion H; subst. apply (lit_best_cons ws Hws _ abi_ok) in E1. exact E1.
    - destruct (lit [120] s) as [q|] eqn:E2; [|discriminate]. apply lit_len in E2.
      destruct (lit_best reg_numbers (skip_ws q)) as [[d q']|] eqn:E3; [|discriminate]. inversion H; subst.
      apply (lit_best_cons ws Hws _ regnums_ok) in E3. pose proof (skip_ws_len q). cbn in E2. lia.
  Qed.
  Lemma p_reg_s : resp RSw RRw p_reg.
  Proof. apply (skipped_s reg_raw reg_raw_r reg_raw_cons). Qed.
