(* TextE2E1.v — running a freshly loaded straight-line program in single-cycle mode (flat memory, no instruction
   cache): lui / addi steps and a final load; the assembler on a text without directives. *)
From Coq Require Import ZArith List Bool Lia ZifyBool.
From ArchSim Require Import Model.Base Model.Mem Model.Cache Model.Fmt Model.RV Model.Single Model.Toy Model.Asm
  Proofs.C01Step.
Import ListNotations.
Open Scope Z_scope.

(* same registers and memory system *)
Definition A (s t : st) : Prop := regs s = regs t /\ ms s = ms t.
Definition pure (i : instr) : Prop := match i with II _ _ _ _ | ILui _ _ => True | _ => False end.

Lemma A_rset s t r v : A s t -> A (rset s r v) (rset t r v).
Proof.
  intros [H1 H2]. unfold A, rset. destruct ((0 <? r) && (r <? 32)); cbn; [|split; assumption].
  rewrite H1. split; [reflexivity|exact H2].
Qed.
Lemma A_rget s t r : A s t -> rget s r = rget t r.
Proof. intros [H _]. unfold rget. rewrite H. reflexivity. Qed.

Lemma done_false s i : exitc s = None -> instr_at (prog (im s)) (pc s) = Some i -> single_done s = false.
Proof. intros H1 H2. unfold single_done, has_instr. rewrite H1, H2. reflexivity. Qed.
Lemma done_true s : exitc s = None -> instr_at (prog (im s)) (pc s) = None -> single_done s = true.
Proof. intros H1 H2. unfold single_done, has_instr. rewrite H1, H2. reflexivity. Qed.

(* the state in which behavior() runs *)
Definition pre_state (s : st) : st :=
  let s0 := with_icount (with_cycles s (cycles s + 1)) (icount (with_cycles s (cycles s + 1)) + 1) in
  with_cycles (with_im s0 (im s0)) (cycles s0 + 0).
Lemma pre_state_facts s : A (pre_state s) s /\ pc (pre_state s) = pc s /\ im (pre_state s) = im s /\ exitc (pre_state s) = exitc s.
Proof. destruct s; cbn. repeat split. Qed.

Lemma stage_unfold s i : instr_at (prog (im s)) (pc s) = Some i -> icc (im s) = None ->
  single_pipeline_step s =
    match behavior i (pre_state s) with
    | (s2, Some e) => (s2, Some {| f_addr := pc s; f_instr := i; f_err := e |})
    | (s2, None) =>
        let '(s3, oe) :=
          match i with
          | ILoad o _ _ _ =>
              match st_read s2 (load_bits o) (load_addr_pre i (pre_state s)) false with
              | (Ok _, s') => (s', None)
              | (Err e, s') => (s', Some e)
              end
          | _ => (s2, None)
          end in
        match oe with
        | Some e => (s3, Some {| f_addr := pc s; f_instr := i; f_err := e |})
        | None => (with_pc s3 (pc s3 + 4), None)
        end
    end.
Proof.
  intros Hi Hc. destruct s as [pc0 regs0 ms0 im0 out0 ex0 ic0 bc0 pcn0 cy0 st0 fl0]. cbn [im pc] in Hi, Hc.
  unfold single_pipeline_step, single_stage, has_instr, fetch, im_read, pre_state.
  cbn [im pc with_cycles with_icount with_im prog cycles icount regs ms out exitc bcount pcount stalls flushes].
  rewrite Hi, Hc. reflexivity.
Qed.

Lemma pure_step i s t k : A s t -> exitc s = None -> icc (im s) = None ->
  instr_at (prog (im s)) (pc s) = Some i -> pure i ->
  exists s', single_run (Datatypes.S k) s = single_run k s' /\ A s' (fst (behavior i t)) /\ snd (behavior i t) = None /\
             exitc s' = None /\ im s' = im s /\ pc s' = pc s + 4.
Proof.
  intros HA He Hc Hi Hp. cbn [single_run]. rewrite (done_false s i He Hi), (stage_unfold s i Hi Hc).
  destruct (pre_state_facts s) as (PA & Ppc & Pim & Pex).
  assert (HA' : A (pre_state s) t) by (destruct PA as [P1 P2], HA as [H1 H2]; split; congruence).
  destruct i; try contradiction; cbn [behavior].
  - eexists. split; [reflexivity|]. rewrite (A_rget _ _ rs1 HA'). cbn [fst snd].
    split; [|split; [reflexivity|]].
    + destruct (A_rset _ _ rd (i_behavior o (rget t rs1) imm) HA') as [R1 R2]. split; cbn; assumption.
    + rewrite pc_rset, Ppc. cbn. unfold rset. destruct ((0 <? rd) && (rd <? 32)); cbn; rewrite ?Pex, ?Pim; auto.
  - eexists. split; [reflexivity|]. cbn [fst snd].
    split; [|split; [reflexivity|]].
    + destruct (A_rset _ _ rd (U32 (Z.shiftl imm 12)) HA') as [R1 R2]. split; cbn; assumption.
    + rewrite pc_rset, Ppc. cbn. unfold rset. destruct ((0 <? rd) && (rd <? 32)); cbn; rewrite ?Pex, ?Pim; auto.
Qed.

Definition in32 (v : Z) : Prop := 0 <= v < 4294967296.
Lemma U32_in32 v : in32 v -> U32 v = v.
Proof. intros H. unfold U32, U. change (2 ^ 32) with 4294967296. apply Z.mod_small. exact H. Qed.

(* a load as the next instruction: flat memory, base register holding a 32-bit value *)
Lemma load_step o rd rs1 imm s t m k : A s t -> ms t = MFlat m -> exitc s = None -> icc (im s) = None ->
  instr_at (prog (im s)) (pc s) = Some (ILoad o rd rs1 imm) -> in32 (rget t rs1) ->
  forall w, mem_read rv_memcfg m (load_bits o) (rget t rs1 + imm) = Ok w ->
  exists s', single_run (Datatypes.S k) s = single_run k s' /\ A s' (rset t rd (load_ext o w)) /\
             exitc s' = None /\ im s' = im s /\ pc s' = pc s + 4.
Proof.
  intros HA Hm He Hc Hi H32 w Hw. cbn [single_run]. rewrite (done_false s _ He Hi), (stage_unfold s _ Hi Hc).
  destruct (pre_state_facts s) as (PA & Ppc & Pim & Pex).
  assert (HA' : A (pre_state s) t) by (destruct PA as [P1 P2], HA as [H1 H2]; split; congruence).
  assert (Hm' : ms (pre_state s) = MFlat m) by (destruct HA' as [_ X]; congruence).
  cbn [behavior load_addr_pre]. rewrite (st_read_flat _ m _ _ _ Hm'), (A_rget _ _ rs1 HA'), Hw.
  rewrite (st_read_flat _ m) by (rewrite ms_rset; exact Hm'). rewrite (U32_in32 _ H32), Hw.
  eexists. split; [reflexivity|]. split; [|].
  - destruct (A_rset _ _ rd (load_ext o w) HA') as [R1 R2]. split; cbn; assumption.
  - rewrite pc_rset, Ppc. cbn. unfold rset. destruct ((0 <? rd) && (rd <? 32)); cbn; rewrite ?Pex, ?Pim; auto.
Qed.

Lemma run_end s k : exitc s = None -> instr_at (prog (im s)) (pc s) = None -> single_run k s = (s, Done).
Proof. intros H1 H2. destruct k; cbn [single_run]; rewrite (done_true s H1 H2); reflexivity. Qed.
