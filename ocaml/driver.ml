(* driver.ml — trusted glue: reads one request per line in the sx format
   ("(1 (2 -3) 4)"), calls the extracted [Model.dispatch], prints the answer on one line.
   Integers are converted to and from the extracted inductive [z] bit by bit; numbers
   that do not fit an OCaml int are handled decimal-digit-wise with the extracted
   Z operations. *)

let rec pos_of_int (n : int) : Model.positive =
  if n = 1 then Model.XH
  else if n land 1 = 0 then Model.XO (pos_of_int (n lsr 1))
  else Model.XI (pos_of_int (n lsr 1))

let z_of_int (n : int) : Model.z =
  if n = 0 then Model.Z0 else if n > 0 then Model.Zpos (pos_of_int n) else Model.Zneg (pos_of_int (-n))

let z10 = z_of_int 10

let z_of_string (s : string) : Model.z =
  let neg = String.length s > 0 && s.[0] = '-' in
  let start = if neg then 1 else 0 in
  let len = String.length s - start in
  let v =
    if len <= 18 then z_of_int (int_of_string (String.sub s start len))
    else begin
      let acc = ref Model.Z0 in
      for i = start to String.length s - 1 do
        acc := Model.Z.add (Model.Z.mul !acc z10) (z_of_int (Char.code s.[i] - 48))
      done; !acc
    end in
  if neg then Model.Z.opp v else v

(* positive -> int when it fits in 61 bits *)
let rec pos_to_int (p : Model.positive) (depth : int) : int option =
  if depth > 60 then None else
  match p with
  | Model.XH -> Some 1
  | Model.XO q -> (match pos_to_int q (depth + 1) with Some v -> Some (2 * v) | None -> None)
  | Model.XI q -> (match pos_to_int q (depth + 1) with Some v -> Some (2 * v + 1) | None -> None)

let rec big_pos_to_string (v : Model.z) : string =
  (* v > 0, slow path *)
  match v with
  | Model.Z0 -> ""
  | _ ->
    let q = Model.Z.div v z10 and r = Model.Z.modulo v z10 in
    let d = (match r with Model.Z0 -> 0 | Model.Zpos p -> (match pos_to_int p 0 with Some k -> k | None -> 0) | Model.Zneg _ -> 0) in
    big_pos_to_string q ^ string_of_int d

let string_of_z (v : Model.z) : string =
  match v with
  | Model.Z0 -> "0"
  | Model.Zpos p -> (match pos_to_int p 0 with Some k -> string_of_int k | None -> big_pos_to_string v)
  | Model.Zneg p -> (match pos_to_int p 0 with Some k -> string_of_int (-k) | None -> "-" ^ big_pos_to_string (Model.Zpos p))

(* parser *)
let parse (s : string) : Model.sx =
  let n = String.length s in
  let pos = ref 0 in
  let rec skip () = if !pos < n && (s.[!pos] = ' ' || s.[!pos] = '\t' || s.[!pos] = '\r') then (incr pos; skip ()) in
  let rec item () : Model.sx =
    skip ();
    if !pos >= n then failwith "eof"
    else if s.[!pos] = '(' then begin
      incr pos;
      let items = ref [] in
      let rec loop () =
        skip ();
        if !pos >= n then failwith "unclosed"
        else if s.[!pos] = ')' then incr pos
        else (items := item () :: !items; loop ()) in
      loop ();
      Model.Lx (List.rev !items)
    end else begin
      let st = !pos in
      while !pos < n && (s.[!pos] = '-' || (s.[!pos] >= '0' && s.[!pos] <= '9')) do incr pos done;
      if !pos = st then failwith ("bad char at " ^ string_of_int st);
      Model.Zx (z_of_string (String.sub s st (!pos - st)))
    end in
  item ()

let rec print (b : Buffer.t) (x : Model.sx) : unit =
  match x with
  | Model.Zx v -> Buffer.add_string b (string_of_z v)
  | Model.Lx l ->
    Buffer.add_char b '(';
    List.iteri (fun i y -> if i > 0 then Buffer.add_char b ' '; print b y) l;
    Buffer.add_char b ')'

let () =
  try
    while true do
      let line = input_line stdin in
      if String.length line > 0 then begin
        let b = Buffer.create 4096 in
        (try print b (Model.dispatch_all (parse line))
         with Failure m -> (Buffer.clear b; Buffer.add_string b ("!error " ^ m))
            | Stack_overflow -> (Buffer.clear b; Buffer.add_string b "!error stack-overflow"));
        print_string (Buffer.contents b); print_newline ()
      end
    done
  with End_of_file -> ()
