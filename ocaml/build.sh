#!/bin/sh
# builds the extracted model + driver; run from /verif/ocaml.  The new binary replaces the old one by an atomic
# rename, so checks that are running (and spawning drivers) never see a half-written executable.
set -e
cd "$(dirname "$0")"
mkdir -p _build
cp gen/model.ml gen/model.mli driver.ml _build/
cd _build
ocamlfind ocamlopt -O3 -w -a -package str model.mli model.ml driver.ml -o driver.new 2>/dev/null || \
ocamlfind ocamlopt -w -a model.mli model.ml driver.ml -o driver.new
mv -f driver.new driver
