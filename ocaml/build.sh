#!/bin/sh
# builds the extracted model + driver; run from /verif/ocaml
set -e
cd "$(dirname "$0")"
mkdir -p _build
cp gen/model.ml gen/model.mli driver.ml _build/
cd _build
ocamlfind ocamlopt -O3 -w -a -package str model.mli model.ml driver.ml -o driver 2>/dev/null || \
ocamlfind ocamlopt -w -a model.mli model.ml driver.ml -o driver
